#!/usr/bin/env python3
"""Runs the repository's pinned baseline (guard OFF) and compares the passing set with
/root/.vp/BASELINE.json's stable_pass.  Exit 0 iff every stable_pass test passes."""
import json, os, subprocess, sys, tempfile
import xml.etree.ElementTree as ET
repo = sys.argv[1] if len(sys.argv) > 1 else "/repo"
base = json.load(open("/root/.vp/BASELINE.json"))
fd, xml = tempfile.mkstemp(suffix=".xml"); os.close(fd)
env = dict(os.environ); env.pop("TERM_IMAGE_VERIF", None)
if repo != "/repo":
    env["PYTHONPATH"] = os.path.join(repo, "src")
subprocess.run(["/venv/bin/python", "-m", "pytest", "-ra", "-q", "-p", "no:cacheprovider", "--timeout=900",
                "--continue-on-collection-errors", "--junitxml=" + xml], cwd=repo, env=env,
               stdout=subprocess.DEVNULL, stderr=subprocess.DEVNULL)
passed = set()
for tc in ET.parse(xml).getroot().iter("testcase"):
    if not any(ch.tag in ("failure", "error", "skipped") for ch in tc):
        passed.add("%s::%s" % (tc.get("classname"), tc.get("name")))
os.remove(xml)
want = set(base["stable_pass"])
missing = sorted(want - passed)
print("baseline: %d stable_pass, %d passed now, %d missing" % (len(want), len(passed), len(missing)))
for m in missing[:20]:
    print("  MISSING", m)
sys.exit(1 if missing else 0)
