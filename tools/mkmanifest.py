#!/usr/bin/env python3
"""Regenerates MANIFEST.json from the table below (keeps it valid at all times)."""
import json, os, sys
ROOT = os.path.dirname(os.path.dirname(os.path.abspath(__file__)))
sys.path.insert(0, ROOT)
from tools.manifest_table import CHECKS, NOT_APPLICABLE, HOOK_COMMITS, NOTES

checks = []
for cid, c in sorted(CHECKS.items()):
    checks.append({
        "property_id": cid,
        "quick_cmd": "./check %s --tier quick" % cid,
        "thorough_cmd": "./check %s --tier thorough" % cid,
        "evidence_file": "/verif/evidence/%s.json" % cid,
        "replay_cmd_template": "./check %s --replay {path}" % cid,
        "engine": c.get("engine", "vf"),
        "level_claimed": {"category": c["level"], "text": c["text"], "design_ref": "DESIGN.md section 3 / %s" % cid},
        "level_note": c["note"],
        "technique": c["technique"],
    })
manifest = {
    "version": 1,
    "setup_cmd": "./setup.sh",
    "hooks": {
        "guard": "TERM_IMAGE_VERIF",
        "enable": "environment variable TERM_IMAGE_VERIF=1 (set by vf/main.py for every worker); pure Python, nothing to build",
        "baseline_off_cmd": "cd /repo && env -u TERM_IMAGE_VERIF /venv/bin/python -m pytest -ra -q -p no:cacheprovider --timeout=900 --continue-on-collection-errors",
        "source_commits": HOOK_COMMITS,
        "add_only": True,
    },
    "engines": [{
        "name": "vf",
        "path": "/verif/vf",
        "serves_properties": sorted(CHECKS),
        "kind_free_text": "runtime monitoring: the real library runs in worker processes inside a pty played by the harness; monitors = reference terminal (VTerm) executing everything written, reference models compared step by step, fault/yield injection, termios/fd/lock-interval observers",
    }],
    "checks": checks,
    "not_applicable": [{"property_id": k, "reason": v} for k, v in sorted(NOT_APPLICABLE.items())],
    "notes": NOTES,
}
json.dump(manifest, open(os.path.join(ROOT, "MANIFEST.json"), "w"), indent=1)
print("MANIFEST.json:", len(checks), "checks,", len(NOT_APPLICABLE), "not applicable")
