#!/usr/bin/env python3
"""ingest_seed.py <property> <source dir with patch.diff, demo.py, NOTES.md> [name]

Confirms an independently written property-breaking change in a scratch copy of /repo
(outside /repo and /verif, removed afterwards):
  1. the patch applies to the current /repo tree,
  2. the repository's baseline still passes with it (tools/baseline.py),
  3. the demonstration fails with the change and passes without it,
and, only if all three hold, stores it as /verif/seeded/<name>/ (patch.diff, demo.py,
NOTES.md, meta.json)."""
import json
import os
import shutil
import subprocess
import sys
import tempfile

ROOT = os.path.dirname(os.path.dirname(os.path.abspath(__file__)))


def run(cmd, **kw):
    return subprocess.run(cmd, capture_output=True, text=True, **kw)


def main():
    prop, src = sys.argv[1], sys.argv[2]
    name = sys.argv[3] if len(sys.argv) > 3 else prop + "-" + os.path.basename(os.path.dirname(src.rstrip("/"))).replace("seed-", "a")
    scratch = tempfile.mkdtemp(prefix="vf-seed-", dir="/var/tmp")
    report = {}
    try:
        tree = os.path.join(scratch, "repo")
        subprocess.run(["rsync", "-a", "--exclude", ".git", "--exclude", "docs", "--exclude", "__pycache__", "--exclude", "SEED", "/repo/", tree + "/"], check=True)
        env = dict(os.environ, PYTHONPATH=os.path.join(tree, "src"))
        demo = os.path.join(src, "demo.py")
        shutil.copy(demo, os.path.join(tree, "demo.py"))
        r0 = run(["/venv/bin/python", "demo.py"], cwd=tree, env=env, timeout=600)
        report["demo_without_change"] = r0.returncode
        p = run(["patch", "-p1", "-s", "-d", tree, "-i", os.path.join(src, "patch.diff")])
        report["patch_applies"] = p.returncode == 0
        if p.returncode:
            print("patch does not apply:", p.stdout, p.stderr)
            return 1
        r1 = run(["/venv/bin/python", "demo.py"], cwd=tree, env=env, timeout=600)
        report["demo_with_change"] = r1.returncode
        report["demo_output_with_change"] = (r1.stdout + r1.stderr)[-600:]
        b = run([os.path.join(ROOT, "tools", "baseline.py"), tree], timeout=1200)
        report["baseline_with_change"] = b.returncode == 0
        report["baseline_output"] = b.stdout.strip()[-300:]
        ok = report["patch_applies"] and report["baseline_with_change"] and r0.returncode == 0 and r1.returncode != 0
        print(json.dumps(report, indent=1))
        if not ok:
            print("NOT CONFIRMED")
            return 1
        dst = os.path.join(ROOT, "seeded", name)
        os.makedirs(dst, exist_ok=True)
        for f in ("patch.diff", "demo.py", "NOTES.md"):
            if os.path.exists(os.path.join(src, f)):
                shutil.copy(os.path.join(src, f), os.path.join(dst, f))
        notes = open(os.path.join(src, "NOTES.md")).read() if os.path.exists(os.path.join(src, "NOTES.md")) else ""
        meta = {
            "property": prop,
            "origin": "independent sub-agent given only the property text and a scratch worktree",
            "needs_to_manifest": notes[:1500],
            "confirmed": {
                "ran": [
                    "patch -p1 on a scratch copy of /repo",
                    "tools/baseline.py <scratch> (repository suite: every stable_pass test still passes)",
                    "demo.py without the change (exit 0) and with it (exit != 0)",
                ],
                "demo_exit_without_change": r0.returncode,
                "demo_exit_with_change": r1.returncode,
                "baseline": report["baseline_output"],
            },
        }
        json.dump(meta, open(os.path.join(dst, "meta.json"), "w"), indent=1)
        print("CONFIRMED ->", dst)
        return 0
    finally:
        shutil.rmtree(scratch, ignore_errors=True)


if __name__ == "__main__":
    sys.exit(main())
