#!/usr/bin/env python3
"""Debug helper: run one shard of a check in a worker and print its result summary.
usage: tools/runshard.py C19 '{"persona": "other", ...}'   (or an index into plan())"""
import json, os, subprocess, sys, tempfile, importlib
ROOT = os.path.dirname(os.path.dirname(os.path.abspath(__file__)))
sys.path.insert(0, ROOT)
from vf.main import worker_env
cid = sys.argv[1]; arg = sys.argv[2] if len(sys.argv) > 2 else "0"
tier = os.environ.get("VERIF_TIER", "quick")
mod = importlib.import_module("vf.checks." + cid.lower())
shard = json.loads(arg) if arg.startswith("{") else mod.plan(tier, int(os.environ.get("VERIF_SEED", "0")))[int(arg)]
d = tempfile.mkdtemp()
json.dump(shard, open(d + "/in.json", "w"))
p = subprocess.run(["/venv/bin/python", "-B", "-X", "faulthandler", "-m", "vf.worker", "vf.checks." + cid.lower(), d + "/in.json", d + "/out.json"], cwd=ROOT, env=worker_env(), stdin=subprocess.DEVNULL)
r = json.load(open(d + "/out.json"))
print("rc", p.returncode, "cases", r.get("cases"), "distinct", len(r.get("distinct", [])), r.get("distinct_count"))
for k, v in sorted(r.get("counters", {}).items()): print("  ", k, v)
for v in r.get("violations", [])[:8]: print("V", v["key"], v["msg"][:700])
for m in r.get("inconclusive", []): print("INC", m)
