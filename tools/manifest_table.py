"""Source of MANIFEST.json (run tools/mkmanifest.py after editing)."""

HOOK_COMMITS = []
NOTES = (
    "Runtime monitoring only (DESIGN.md). Exit codes: 0 held, 1 violation (VIOLATION line + replay file), "
    "2 inconclusive (a monitor was not reached / a watchdog fired). VERIF_SEED seeds all random choices; "
    "VERIF_REPO selects the tree (default /repo; used by ./selftest for mutants on scratch copies). "
    "Known findings (genuine defects recorded, not repaired) and the list of repaired ones: known_findings.json; a "
    "listed finding is printed as 'KNOWN-FINDING: property=<id> ...' and does not fail the check (currently one: C14, "
    "synchronized call at module level of a spawned child's re-imported main script)."
)
_PENDING = "check not built yet in this session (being built; see DESIGN.md section 3)"

CHECKS = {
    "C01": dict(
        level="exploration",
        technique="runtime monitor: reference terminal (VTerm) executes every render; rectangle/cursor/SGR/parser-state oracle",
        text="Every generated render (7 terminal identities x 3 styles x methods x style args x alpha x sizing x terminal/cell "
        "sizes x start positions, plus the complete 6x6 grid per identity/style/method/alpha kind) is executed on the "
        "reference terminal and judged cell by cell; held on what was generated, nothing more.",
        note="Trusts VTerm's terminal model (unit-tested in tests/test_vterm.py; assumptions listed in the evidence) and PIL for building sources.",
    ),
    "C02": dict(
        level="exploration",
        technique="runtime monitor: VTerm recovers the visible (upper, lower) half colours of every cell; three pixel oracles (identity arrays, uniform, PIL-resampled)",
        text="Every generated block render is interpreted and each half-cell compared with the expected pixel (identity sources at render "
        "resolution use the generator's own arrays; threshold semantics three-valued at the rounding point; kitty default-background "
        "workaround required exactly where it matters).",
        note="Trusts VTerm's SGR/half-block interpretation and PIL's convert/resize(BOX)/alpha_composite for the resampled tier.",
    ),
    "C05": dict(
        level="exploration",
        technique="runtime monitor: differential execution on two VTerms (padded output vs. inner render alone) + documentation-derived padding model",
        text="All five padding surfaces (Padding.pad, Renderable.render, RenderIterator frames, format() incl. same-instance histories across resizes, and real old-API draw() calls of stills and animations judged by the final screen of the byte stream) are driven with synthetic and real "
        "inner renders; box size, alignment constraints, fill cells, untouched cells for empty fill, cursor, get_padded_size/to_exact/resolve "
        "agreement are judged on every case, plus the complete small grid.",
        note="Trusts VTerm and the padding model in vf/models/padding.py (CENTER odd cell: either side accepted).",
    ),
    "C19": dict(
        level="exploration",
        technique="runtime monitor: hand-written recursive-descent reference recogniser/interpreter vs. format() on every string up to a length bound, plus draw() equivalence on the pty",
        text="ALL strings of length <= 4 (quick) / <= 5 (thorough) over the 21-symbol specifier alphabet are judged for each render style "
        "(accept/reject, documented error class, no side effect on image or class state); accepted specifiers are rendered and compared with "
        "the draw() pipeline called with the parameters the reference interpreter derives, a sample through a real draw() on the pty; random "
        "long sentences / near-sentences reach the int32 z-index limits and long thresholds.",
        note="Trusts the reference grammar in vf/models/fmtspec.py (written from docs/source/guide/formatting.rst and the class docs); leniencies listed in the evidence assumptions.",
    ),
    "C04": dict(
        level="exploration",
        technique="runtime monitor: exact-rational sizing oracle on every _valid_size/set_size/rendered_size result + fixed-vs-dynamic shadow over operation histories",
        text="Sizing results for random sources, terminal sizes, real pty cell sizes, cell ratios, frames and all modes in both families are "
        "judged against the documented inequalities in exact fractions (float cell ratios and the automatic DYNAMIC / FIXED modes on cells that are not 1:2); histories of set_size/size=/resize/set_cell_ratio/render check that "
        "fixed sizes never move and dynamic sizes follow the terminal.",
        note="Trusts vf/models/sizing.py (AUTO three-valued within +-0.5 px) and the pty's TIOCSWINSZ as the source of terminal/cell size.",
    ),
    "C16": dict(
        level="exploration",
        technique="runtime monitor: documentation model of RenderArgs compared after every operation of generated programs; deep snapshots of all pre-existing objects",
        text="Generated class trees and random operation pools (constructor, update, convert, |, +, to_render_args, namespace update, "
        "item access) biased toward default-valued arguments; every result's per-class namespaces, acceptance/error type, eq/hash and the "
        "immutability of every pre-existing object (incl. interned defaults and _ALL_DEFAULT_ARGS) are checked; malformed namespace class "
        "definitions must be rejected.",
        note="Trusts the precedence/compatibility model inside vf/checks/c16.py (from the RenderArgs/ArgsNamespace docstrings).",
    ),
    "C20": dict(
        level="exploration",
        technique="runtime monitor: resolution model for every style setting on every node after each operation; render method observed from the framing of real renders on VTerm",
        text="Random subclass trees with instances and histories of set/unset/invalid-set for render method, forced_support, jpeg_quality, "
        "read_from_file and native_anim_max_bytes; effective values of all nodes compared with the model after every step; the method "
        "actually used by a render (and per-call override) read off the protocol framing; instantiation refused iff neither supported nor forced.",
        note="Trusts the resolution model in vf/checks/c20.py and VTerm's protocol parsing for counting graphics commands.",
    ),
    "C08": dict(
        level="exploration",
        technique="runtime monitor: executable reference model of RenderIterator compared step by step over all short and many random operation histories (delta-minimised witnesses)",
        text="ALL operation sequences of length <= 4 (quick) / <= 6 (thorough) over a 12-symbol alphabet for frame counts 2,3 x loops 1,2 x cache "
        "on/off, plus random histories up to 60 operations on definite and INDEFINITE sources: frame number, duration, size, output, error, "
        "loop countdown, renderable.tell() and what an INDEFINITE source is handed are compared with the model after every step.",
        note="Trusts vf/models/iterator.py (from the docstrings) and the library's Padding.pad for the look of a padded frame (C05 decides that).",
    ),
    "C09": dict(
        level="exploration",
        technique="runtime monitor: differential execution of cached vs un-cached iterators (RenderIterator and ImageIterator) + per-epoch render counter",
        text="Paired iterators run the same history; any differing yielded frame, error or loop countdown is a violation, and with caching on a "
        "frame may be rendered at most once per settings epoch (observed in the subject's _render_ log). Image iterators are paired over "
        "generated GIF/WebP files with seeks, size changes and terminal resizes.",
        note="The un-cached iterator is the specification (decided by C08/C11); APNG sources excluded because of a Pillow 11.1 seek bug.",
    ),
    "C10": dict(
        level="fault_enumeration",
        technique="fault enumeration: exception injected at the k-th frame render for every k of every generated scenario (5 exception kinds) + size failures; per-token finalization counters",
        text="Every scenario (str, render, draw still/animated, full/partial iteration, close twice, drop reference, seeks, __iter__, "
        "_from_render_data_ with either ownership, two or three co-existing iterators ended in any order, re-entrant close, mid-iteration resizes; a quarter of them inside an except block, i.e. while an unrelated exception is being handled) is profiled fault-free and re-run with a fault at each render call; every render-data "
        "token must be finalized exactly once (0 times by the library when the caller keeps ownership), explicitly rather than only by the "
        "collector (also when size validation fails before the first render), never used after finalization, and the iterator must be closed afterwards.",
        note="Finalization is observed through the subject's own _finalize_render_data_ / _render_ (tokens in its _Data_ namespace); CPython reference counting assumed for the drop-reference scenario.",
    ),
    "C03": dict(
        level="exploration",
        technique="runtime monitor: strict kitty / iTerm2 protocol tokenizers over every render + decoded-pixel oracle (identity arrays / PIL BOX), chunk-boundary sweep",
        text="Every kitty render is tokenized (control keys on the first chunk only, chunk <= 4096 and multiple of 4 unless last, m flags, "
        "payload length = s*v*bytes-per-pixel after inflation, LINES strips stitched) and every iterm2 render checked for size=, cell keys, "
        "decodable PNG/JPEG payload or untouched file bytes under the read-from-file rules; pixels compared with the expected image (animated sources: the current frame, reached through visited and rendered other frames); payload "
        "lengths swept across the 4096-character chunk boundaries for compression levels 0,1,4,9.",
        note="Trusts vf/proto.py (protocol documents), PIL decoders and convert/resize(BOX)/alpha_composite for non-identity cases; JPEG judged against PIL's own codec at the effective quality.",
    ),
    "C17": dict(
        level="exploration",
        technique="runtime monitor: every sub-rectangle of each generated canvas executed row by row on VTerm and compared with the untrimmed canvas",
        text="For sampled image widgets (3 styles, box and flow, 9 alignments, upscale, transparency, 4 identities) ALL (trim_left, trim_top, "
        "cols, rows) are requested: row count, exact column advance, reset attributes at row end, visible half-cell colours equal to the "
        "full canvas (text), exact line selection / blank horizontal trims (graphics); flow widgets' announced rows equal rendered rows.",
        note="Trusts VTerm's one-row interpretation; exhaustive per canvas, canvases sampled.",
    ),
    "C18": dict(
        level="exploration",
        technique="runtime monitor: incremental screen output on VTerm vs. the same canvas executed on a fresh VTerm (placement layer), sync-bracket / clear / z-index observers",
        text="Random urwid layout histories (Columns/Pile/Overlay/LineBox/Filler/ListBox scrolling, grids of flow widgets of unequal heights with a moving split, an image widget or SolidFill as the topmost widget) with kitty, iterm2 and block widgets under kitty, konsole and other identities: after every redraw "
        "the placements on the incrementally updated reference terminal must equal a full repaint of the same canvas (no ghost, no missing "
        "image), all redraw output lies inside one synchronized-update bracket, delete-all on start/stop/clear, live kitty widgets hold "
        "distinct in-range z-indexes (boundary reached by presetting the allocator).",
        note="Trusts VTerm's kitty/konsole placement semantics (stack vs replace) and urwid 2.6.16 as installed; text-layer anomalies are counted only.",
    ),
    "C06": dict(
        level="exploration",
        technique="runtime monitor: real draw() on a pty, byte stream cut at every flush (in-band markers) and executed on VTerm against per-frame reference screens; validation predicate from the docstrings",
        text="Both APIs' draw() (stills and animations, all styles per identity, paddings, loops, cache, initial cursor rows incl. forced "
        "scrolling, TTY or not) write to a real pty; at every flush the screen must equal one frame drawn alone at the origin, in the "
        "documented order; after the call the screen equals the last frame plus one newline, cursor visible at column 0 below, attributes "
        "reset, no unnecessary scroll; rejected sizes raise the documented error before any byte is written; some draws run after sys.stdout was replaced by another stream on the same terminal; animations are also ended by Ctrl-C during the k-th wait, the k-th frame render and the k-th frame write (a prefix delivered): the call returns silently with the cursor visible and not inside the region.",
        note="Trusts VTerm (incl. iTerm2/wezterm/konsole personalities), the logical clock replacing sleep/time in the library's namespaces, and the padding geometry model.",
    ),
    "C07": dict(
        level="fault_enumeration",
        technique="fault enumeration: a KeyboardInterrupt / other exception at every write, flush, sleep and render operation of each generated draw() (clean-up classified by stack walk at injection time), with escape-cutting write prefixes; VTerm + termios + state observers",
        text="Every non-clean-up operation of each profiled draw() (both APIs, stills and animations incl. animated sources drawn with animate=False, all styles per identity, new-API subjects with text, SGR and string-type graphics-like output incl. a frame-clearing command) is faulted once "
        "per exception kind and per delivered prefix; afterwards the cursor must be visible, no graphics string or chunked transmission left "
        "open, a probe text displayed, attributes reset, termios identical, render data finalized once, image size/frame unchanged, and the "
        "outcome as documented (animations end silently on Ctrl-C, stills propagate).",
        note="Graphics-capable personalities keep consuming an unterminated APC/OSC until ST (what the library's handlers exist for); clean-up ranges come from the AST of the current tree.",
    ),
    "C11": dict(
        level="exploration",
        technique="runtime monitor: frame-by-frame differential (iterator vs direct formatting), open-file census, weak registry of images the library opens, temp-dir listing, loopback HTTP server, PIL failure injection at every call",
        text="Histories over file / PIL / URL sources (stills and 2..5-frame animations, all styles, specs incl. +A fallback, cache, repeat, "
        "seeks, early close, abandonment, str/format/draw in between): every yielded frame equals formatting that frame directly, tell() tracks "
        "and returns to 0, draw() leaves it alone, size setting untouched; after each history the fd count is back to baseline, no "
        "library-opened image is alive and open, the caller's image still works, URL temp files exist exactly while open (none after failed "
        "construction); a failure is injected at each PIL call of a render/iteration/draw and the census taken while the exception is alive.",
        note="fd census on CPython (reference counting); the HTTP server runs out of process so its sockets are not counted; animated PNG excluded (Pillow 11.1 APNG rewind bug).",
    ),
    "C12": dict(
        level="exploration",
        technique="runtime monitor: scripted terminal on a real pty (one fresh process per identity) answering queries with controlled form and timing; results compared with the script and the documented support table; FIONREAD and elapsed-time observers",
        text="Per scripted terminal: kitty/iterm2 support and auto_image_class() against the documented decision table; then value cases "
        "re-script replies (1..4 hex digits, ST/BEL, offsets within 0.4 x timeout, unsupported-query subsets, pixel size via ioctl / XTWINOPS "
        "16 / 14 / none, swap, queries disabled): reported colours, name, version, cell size must equal the script, no reply bytes may remain "
        "unread (when DA1 is answered), defaults within the timeout otherwise.",
        note="Timing: verdicts use values, not wall-clock; a timing-sensitive mismatch must reproduce 3/3 with longer timeouts; elapsed-time overruns are inconclusive, not violations.",
    ),
    "C13": dict(
        level="fault_enumeration",
        technique="fault enumeration: an exception before/after every tcgetattr/tcsetattr/tcdrain/write/select/read of each operation and every write/flush of draw()'s output stream incl. those of its clean-up (only the restoring tcsetattr itself excluded, by stack walk), real SIGINT while parked in select; byte-for-byte tcgetattr comparison on a real pty",
        text="Every attribute-changing operation (queries, direct reads in all modes, query helpers, draw with echo suppressed) is run from "
        "random initial attribute sets; after normal return, time-out, a raising predicate, an injected KeyboardInterrupt/OSError at each "
        "system-call boundary (the drawn renderable's finalizer hook releasing a resource is one) and a real SIGINT, tcgetattr must return exactly the initial list (all flags and control characters).",
        note="System-call names in the library's namespaces are replaced by counting proxies; a signal between entering a finally block and its first call is out of scope (cannot be excluded in Python).",
    ),
    "C15": dict(
        level="exploration",
        technique="runtime monitor: freshness model of cell size / ratio / memoized values compared after every step of resize/toggle histories on a real pty; body-execution counters under barrier-released threads with sys.monitoring yield injection",
        text="Histories of resizes (TIOCSWINSZ, pixels present or zero with XTWINOPS answered by the scripted terminal), swap toggles, "
        "query enable/disable, cell-ratio mode changes and reads: every value must be what a fresh computation gives (pixel-only changes "
        "lenient, as documented), also after subprocesses were started (shared-memory cache); results memoized while queries were disabled -- a negative auto-cell-ratio support finding and graphics-style support derived from an inherited TERM_PROGRAM included -- must vanish on enable_queries(); memoized probes run their "
        "body exactly once per argument tuple / terminal size under 2..16 simultaneous first calls with line-level yield injection.",
        note="Trusts the freshness model in vf/checks/c15.py and CPython's sys.monitoring for yield injection; AutoCellRatio.is_supported is reset to None (documented as settable) at the start of every history and modelled independently.",
    ),
    "C14": dict(
        level="exploration",
        technique="runtime monitor: offline overlap sweep over [enter, exit] interval logs of lock_tty-decorated probes from every thread and process of real multiprocessing trees (fork/spawn/forkserver) under a pty; id-echoing queries; hand-over delay and line-level yield injection",
        text="Each run is a fresh process tree (threads x children x grandchildren, created as Process(target=...) or as a Process subclass overriding run(); all processes rendezvous for a second batch so that the whole tree is demonstrably at work simultaneously; Process.start() at random moments while other threads "
        "hammer probes (plain, and a functools.wraps wrapper of a synchronized function synchronized as a whole) and queries, in some runs with one thread inside a synchronized call for over a second across the first start, in some behind a relay process that never imports the library, plus a stand-alone program whose main script makes a synchronized call at module level (spawn / forkserver: known finding), delays injected around the lock hand-over and inside the wrappers): no two synchronized intervals of "
        "different threads/processes may overlap (one system-wide monotonic clock, stamps taken inside the body), every query must get "
        "exactly its own reply, nested calls must not block; hangs in >= 3 independent runs are a reproducible-hang violation, fewer are "
        "inconclusive.",
        note="The process-target module imports term_image at module level (a spawn/forkserver child can only receive the lock if the library is imported before Process.run()); schedules are sampled, not enumerated.",
    ),
}

NOT_APPLICABLE = {
    cid: _PENDING
    for cid in ["C%02d" % i for i in range(1, 21)]
    if cid not in CHECKS
}
