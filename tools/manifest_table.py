"""Source of MANIFEST.json (run tools/mkmanifest.py after editing)."""

HOOK_COMMITS = []
NOTES = (
    "Runtime monitoring only (DESIGN.md). Exit codes: 0 held, 1 violation (VIOLATION line + replay file), "
    "2 inconclusive (a monitor was not reached / a watchdog fired). VERIF_SEED seeds all random choices; "
    "VERIF_REPO selects the tree (default /repo; used by ./selftest for mutants on scratch copies)."
)
_PENDING = "check not built yet in this session (being built; see DESIGN.md section 3)"

CHECKS = {
    "C01": dict(
        level="exploration",
        technique="runtime monitor: reference terminal (VTerm) executes every render; rectangle/cursor/SGR/parser-state oracle",
        text="Every generated render (7 terminal identities x 3 styles x methods x style args x alpha x sizing x terminal/cell "
        "sizes x start positions, plus the complete 6x6 grid per identity/style/method/alpha kind) is executed on the "
        "reference terminal and judged cell by cell; held on what was generated, nothing more.",
        note="Trusts VTerm's terminal model (unit-tested in tests/test_vterm.py; assumptions listed in the evidence) and PIL for building sources.",
    ),
}

NOT_APPLICABLE = {
    cid: _PENDING
    for cid in ["C%02d" % i for i in range(1, 21)]
    if cid not in CHECKS
}
