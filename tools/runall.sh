#!/bin/sh
# usage: tools/runall.sh [tier] [seed]  -- runs every check, prints one line each
cd "$(dirname "$0")/.." || exit 1
tier=${1:-quick}; seed=${2:-0}
for i in 01 02 03 04 05 06 07 08 09 10 11 12 13 14 15 16 17 18 19 20; do
  s=$(date +%s)
  out=$(VERIF_SEED=$seed ./check C$i --tier $tier 2>&1); rc=$?
  e=$(date +%s)
  echo "C$i rc=$rc $((e-s))s $(echo "$out" | grep -E '^(HELD|VIOLATION|INCONCLUSIVE|KNOWN)' | head -2 | tr '\n' ' ' | cut -c1-160)"
done
