#!/usr/bin/env python3
"""mkmut.py NAME FILE  (stdin: OLD\n=====\nNEW) -> mutants/NAME.patch (p1, relative to repo root)"""
import difflib, os, sys
name, rel = sys.argv[1], sys.argv[2]
old, new = sys.stdin.read().split("\n=====\n")
new = new.rstrip("\n")
old = old.strip("\n")
src = open(os.path.join("/repo", rel)).read()
assert src.count(old) == 1, "old text occurs %d times" % src.count(old)
dst = src.replace(old, new)
diff = "".join(difflib.unified_diff(src.splitlines(True), dst.splitlines(True), "a/" + rel, "b/" + rel))
path = os.path.join(os.path.dirname(os.path.dirname(os.path.abspath(__file__))), "mutants", name + ".patch")
open(path, "w").write(diff)
print(path, len(diff.splitlines()), "lines")
