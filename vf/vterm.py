"""VTerm -- reference terminal used as the oracle for everything the library writes.

Independent of the library under test: nothing here imports ``term_image``; the
sequences are re-stated from ECMA-48, xterm's ctlseqs, the kitty graphics protocol
and the iTerm2 inline images protocol documents.  See DESIGN.md section 2.1.

The model is deliberately *observational*: it never raises on odd input, it records.
Checks decide which records are violations.
"""

from __future__ import annotations

import unicodedata
import base64
import binascii
import re
import zlib
from collections import Counter

SENT = ("￾", "S", "S")  # sentinel cell: never producible by any output
BLANK = (" ", None, None)

_C0_OR_DEL = re.compile("[\x00-\x1f\x7f]")
_STR_END = re.compile("[\x1b\x07\x18\x1a]")

PERSONALITIES = ("kitty", "konsole", "wezterm", "iterm2", "other")


class Placement:
    """A kitty-protocol image placement (or an iTerm2 image on konsole)."""

    __slots__ = ("z", "row", "col", "c", "r", "digest", "keys", "payload", "proto", "ok")

    def __init__(self, z, row, col, c, r, digest, keys, payload, proto="kitty", ok=True):
        self.z, self.row, self.col, self.c, self.r = z, row, col, c, r
        self.digest, self.keys, self.payload, self.proto, self.ok = (
            digest,
            keys,
            payload,
            proto,
            ok,
        )

    def key(self):
        return (self.proto, self.z, self.row, self.col, self.c, self.r, self.digest)

    def covers(self, row, col):
        return self.row <= row < self.row + self.r and self.col <= col < self.col + self.c

    def __repr__(self):
        return "P(%s z=%s @%s,%s %sx%s %s)" % (
            self.proto,
            self.z,
            self.row,
            self.col,
            self.c,
            self.r,
            self.digest,
        )


class VTerm:
    def __init__(
        self,
        rows,
        cols,
        personality="other",
        *,
        cooked=True,
        margin=0,
        fill=SENT,
        default_bg=None,
        keep_payload=False,
        strict_strings=None,
    ):
        assert personality in PERSONALITIES
        self.rows, self.cols = rows, cols
        self.personality = personality
        self.cooked = cooked
        self.lm = margin
        self.default_bg = default_bg  # only used by colour interpretation helpers
        self.keep_payload = keep_payload
        # Graphics-capable terminals keep consuming an unterminated APC/OSC/DCS string
        # until ST (or BEL for OSC) arrives -- an ESC that does not start ST is data
        # (this is what the library's interrupted-draw handlers exist for); xterm-like
        # terminals abandon the string at any ESC.
        self.strict_strings = (personality != "other") if strict_strings is None else strict_strings
        self.grid = [[fill] * cols for _ in range(rows)]
        self.touched = set()
        self.r = self.c = 0
        self.pw = False  # pending wrap
        self.visible = True
        self.fg = self.bg = None
        self.attr = False  # any other SGR attribute set
        self.saved = None
        self.scrolls = 0
        self.autowraps = 0
        self.sync = 0
        self.sync_begins = 0
        self.sync_ends = 0
        self.outside_sync = 0  # state-changing operations seen while sync == 0
        self.placements = []
        self.images = {}  # iTerm2 images stored in cells: id -> (w, h, digest, keys)
        self._img_id = 0
        self.deletes = []  # (kind, arg)
        self.pending = None  # [keys, payload-parts] of an unfinished chunked kitty cmd
        self.state = "g"
        self.buf = []
        self.log = Counter()
        self.unknown = []
        self.malformed = []
        self.aborted = []
        self.modes = {}
        self.events = []  # (kind, detail) for things checks want to order
        self.queries = []  # queries seen (for responders)
        self.bytes = 0

    # ------------------------------------------------------------------ helpers
    def _mark(self):
        if not self.sync:
            self.outside_sync += 1

    def _scroll_up(self, n=1):
        for _ in range(n):
            self.scrolls += 1
            self.grid.pop(0)
            self.grid.append([BLANK] * self.cols)
        self.touched = {(r - n, c) for r, c in self.touched if r - n >= 0}
        for p in self.placements:
            p.row -= n
        self.placements = [p for p in self.placements if p.row + p.r > 0]

    def _lf(self):
        if self.r == self.rows - 1:
            self._scroll_up()
        else:
            self.r += 1

    def _put_run(self, text):
        self._mark()
        cols = self.cols
        fg, bg = self.fg, self.bg
        attr = self.attr
        touched = self.touched
        for ch in text:
            if ch >= "\u0300" and unicodedata.combining(ch):
                # a combining mark occupies no column: it joins the character just written
                # (the cell under the cursor when a wrap is pending, else the one before it)
                pc = self.c if self.pw else self.c - 1
                if pc >= 0:
                    cell = self.grid[self.r][pc]
                    self.grid[self.r][pc] = (cell[0] + ch,) + tuple(cell[1:])
                continue
            if self.pw:
                self.autowraps += 1
                self.pw = False
                self.c = self.lm
                self._lf()
            self.grid[self.r][self.c] = (ch, fg, bg, "A") if attr else (ch, fg, bg)
            touched.add((self.r, self.c))
            if self.c >= cols - 1:
                self.pw = True
            else:
                self.c += 1

    # ------------------------------------------------------------------ feeding
    def feed(self, data):
        """Interprets *data* (str).  Safe to call repeatedly with fragments."""
        self.bytes += len(data)
        i, n = 0, len(data)
        while i < n:
            st = self.state
            if st == "g":
                m = _C0_OR_DEL.search(data, i)
                j = m.start() if m else n
                if j > i:
                    self._put_run(data[i:j])
                    i = j
                    continue
                self._c0(data[i])
                i += 1
            elif st == "e":
                self._esc(data[i])
                i += 1
            elif st == "cs":  # charset designation: one more byte
                self.state = "g"
                self.log["charset"] += 1
                i += 1
            elif st == "c":
                ch = data[i]
                i += 1
                if ch == "\x1b":
                    self.aborted.append("CSI " + "".join(self.buf))
                    self.state = "e"
                elif ch in "\x18\x1a":
                    self.aborted.append("CSI " + "".join(self.buf))
                    self.state = "g"
                elif ch < " " or ch == "\x7f":
                    if ch != "\x7f":
                        self._c0(ch, in_csi=True)
                elif "@" <= ch <= "~":
                    self.state = "g"
                    self._csi("".join(self.buf), ch)
                else:
                    self.buf.append(ch)
            elif st in ("a", "o", "d"):
                m = _STR_END.search(data, i)
                if not m:
                    self.buf.append(data[i:])
                    i = n
                    continue
                j = m.start()
                if j > i:
                    self.buf.append(data[i:j])
                ch = data[j]
                i = j + 1
                if ch == "\x07":
                    if st == "o":
                        self.state = "g"
                        self._string(st, "".join(self.buf), "BEL")
                    else:
                        pass  # BEL inside APC/DCS: ignored
                elif ch == "\x1b":
                    self.state = st + "e"
                else:  # CAN / SUB
                    self.aborted.append("STR" + st)
                    self.state = "g"
            elif st in ("ae", "oe", "de"):
                ch = data[i]
                if ch == "\\":
                    i += 1
                    self.state = "g"
                    self._string(st[0], "".join(self.buf), "ST")
                elif self.strict_strings:
                    # still inside the string: the ESC was data
                    self.buf.append("\x1b")
                    self.state = st[0]
                else:
                    # ESC not followed by '\': the string is abandoned and the ESC
                    # starts a new sequence (xterm/VTE behaviour)
                    self.aborted.append("STR" + st[0] + " " + "".join(self.buf)[:24])
                    self.state = "e"
            else:  # pragma: no cover
                raise AssertionError(st)

    def feed_bytes(self, data, _dec={}):
        self.feed(data.decode("utf-8", "replace"))

    # ------------------------------------------------------------------ C0 / ESC
    def _c0(self, ch, in_csi=False):
        if ch == "\x1b":
            self.state = "e"
        elif ch == "\n":
            self._mark()
            self.pw = False
            if self.cooked:
                self.c = self.lm
            self._lf()
            self.log["LF"] += 1
        elif ch == "\r":
            self.c = self.lm if self.c >= self.lm else 0
            self.pw = False
            self.log["CR"] += 1
        elif ch == "\b":
            if self.c > 0:
                self.c -= 1
            self.pw = False
            self.log["BS"] += 1
        elif ch == "\x00":
            self.log["NUL"] += 1
        elif ch in "\x0e\x0f":
            self.log["SI/SO"] += 1
        elif ch == "\x07":
            self.log["BEL"] += 1
        elif ch == "\x7f":
            self.log["DEL"] += 1
        else:
            self.unknown.append("C0 %r" % ch)

    def _esc(self, ch):
        self.buf = []
        if ch == "[":
            self.state = "c"
        elif ch == "_":
            self.state = "a"
        elif ch == "]":
            self.state = "o"
        elif ch == "P":
            self.state = "d"
        elif ch in "()*+":
            self.state = "cs"
        elif ch == "\\":
            self.state = "g"
            self.log["lone ST"] += 1
        elif ch == "7":
            self.saved = (self.r, self.c, self.pw, self.fg, self.bg, self.attr)
            self.state = "g"
        elif ch == "8":
            if self.saved:
                self.r, self.c, self.pw, self.fg, self.bg, self.attr = self.saved
            self.state = "g"
        elif ch in "=>":
            self.state = "g"
        elif ch == "\x1b":
            pass
        elif ch == "M":  # reverse index
            self.r = max(0, self.r - 1)
            self.state = "g"
        else:
            self.unknown.append("ESC %r" % ch)
            self.state = "g"

    # ------------------------------------------------------------------ CSI
    @staticmethod
    def _n(p, default=1):
        try:
            v = int(p) if p else default
        except ValueError:
            return None
        return v or 1  # parameter 0 means 1 (ECMA-48, xterm, VTE, kitty)

    def _csi(self, p, f):
        self.log["CSI " + f] += 1
        if f in "ABCD":
            n = self._n(p)
            if n is None:
                self.malformed.append("CSI %s%s" % (p, f))
                return
            self.pw = False
            if f == "A":
                self.r = max(0, self.r - n)
            elif f == "B":
                self.r = min(self.rows - 1, self.r + n)
            elif f == "C":
                self.c = min(self.cols - 1, self.c + n)
            else:
                self.c = max(self.lm if self.c >= self.lm else 0, self.c - n)
        elif f in "Hf":
            a = (p.split(";") + ["", ""])[:2]
            r, c = self._n(a[0]), self._n(a[1])
            if r is None or c is None:
                self.malformed.append("CSI %s%s" % (p, f))
                return
            self.r = min(self.rows, r) - 1
            self.c = min(self.cols, c) - 1
            self.pw = False
        elif f == "X":
            n = self._n(p)
            if n is None:
                self.malformed.append("CSI %sX" % p)
                return
            self._mark()
            row = self.grid[self.r]
            cell = (" ", None, self.bg)
            for c in range(self.c, min(self.cols, self.c + n)):
                row[c] = cell
                self.touched.add((self.r, c))
            self.pw = False
            self._erase_cells(self.r, self.c, min(self.cols, self.c + n))
        elif f == "K":
            self._mark()
            mode = p or "0"
            lo, hi = {"0": (self.c, self.cols), "1": (0, self.c + 1), "2": (0, self.cols)}.get(
                mode, (0, 0)
            )
            row = self.grid[self.r]
            cell = (" ", None, self.bg)
            for c in range(lo, hi):
                row[c] = cell
                self.touched.add((self.r, c))
            self._erase_cells(self.r, lo, hi)
        elif f == "J":
            self._mark()
            mode = p or "0"
            cell = (" ", None, self.bg)
            for r in range(self.rows):
                for c in range(self.cols):
                    if (
                        mode in "23"
                        or (mode == "0" and (r, c) >= (self.r, self.c))
                        or (mode == "1" and (r, c) <= (self.r, self.c))
                    ):
                        self.grid[r][c] = cell
                        self.touched.add((r, c))
        elif f == "@":
            n = self._n(p)
            self._mark()
            row = self.grid[self.r]
            k = min(n or 1, self.cols - self.c)
            row[self.c :] = [(" ", None, self.bg)] * k + row[self.c : self.cols - k]
            for c in range(self.c, self.cols):
                self.touched.add((self.r, c))
        elif f == "P":  # DCH
            n = self._n(p)
            self._mark()
            row = self.grid[self.r]
            k = min(n or 1, self.cols - self.c)
            row[self.c :] = row[self.c + k :] + [(" ", None, self.bg)] * k
        elif f == "m":
            self._sgr(p)
        elif f in "hl" and p.startswith("?"):
            on = f == "h"
            for mode in p[1:].split(";"):
                self.modes[mode] = on
                if mode == "25":
                    self.visible = on
                elif mode == "2026":
                    if on:
                        self.sync_begins += 1
                        self.sync = 1
                    else:
                        self.sync_ends += 1
                        self.sync = 0
                    self.events.append(("sync", on))
        elif f in "hl":
            self.modes[p] = f == "h"
        elif f == "c" and p in ("", "0"):
            self.queries.append("DA1")
        elif f == "q" and p == ">":
            self.queries.append("XTVERSION")
        elif f == "q" and p.endswith(" "):  # DECSCUSR
            pass
        elif f == "t":
            self.queries.append("XTWINOPS " + p)
        elif f == "r":  # DECSTBM (urwid does not use it; recorded)
            self.log["DECSTBM"] += 1
        elif f == "n":
            self.queries.append("DSR " + p)
        elif f == "s" and not p:
            self.saved = (self.r, self.c, self.pw, self.fg, self.bg, self.attr)
        elif f == "u" and not p:
            if self.saved:
                self.r, self.c, self.pw, self.fg, self.bg, self.attr = self.saved
        else:
            self.unknown.append("CSI %s%s" % (p, f))

    def _erase_cells(self, r, lo, hi):
        pass  # cells hold iTerm2 image parts directly; overwritten above

    def _sgr(self, p):
        if ":" in p and ";" not in p:
            ps = p.split(":")
            # 38:2::r:g:b
            if len(ps) == 6 and ps[0] in ("38", "48") and ps[1] == "2":
                try:
                    col = (int(ps[3]), int(ps[4]), int(ps[5]))
                except ValueError:
                    self.malformed.append("SGR " + p)
                    return
                if ps[0] == "38":
                    self.fg = col
                else:
                    self.bg = col
                return
        ps = p.split(";") if p else ["0"]
        i = 0
        while i < len(ps):
            s = ps[i]
            if s in ("", "0"):
                self.fg = self.bg = None
                self.attr = False
            elif s in ("38", "48"):
                kind = ps[i + 1] if i + 1 < len(ps) else ""
                if kind == "2" and i + 4 < len(ps):
                    try:
                        col = (int(ps[i + 2]), int(ps[i + 3]), int(ps[i + 4]))
                    except ValueError:
                        self.malformed.append("SGR " + p)
                        return
                    if not all(0 <= v <= 255 for v in col):
                        self.malformed.append("SGR " + p)
                    i += 4
                elif kind == "5" and i + 2 < len(ps):
                    col = ("idx", ps[i + 2])
                    i += 2
                else:
                    self.malformed.append("SGR " + p)
                    return
                if s == "38":
                    self.fg = col
                else:
                    self.bg = col
            elif s == "39":
                self.fg = None
            elif s == "49":
                self.bg = None
            elif s.isdigit() and (30 <= int(s) <= 37 or 90 <= int(s) <= 97):
                self.fg = ("idx", s)
            elif s.isdigit() and (40 <= int(s) <= 47 or 100 <= int(s) <= 107):
                self.bg = ("idx", s)
            elif s.isdigit() and int(s) in (1, 2, 3, 4, 5, 7, 8, 9):
                self.attr = True
            elif s.isdigit() and 21 <= int(s) <= 29:
                self.attr = False
            else:
                self.unknown.append("SGR " + p)
            i += 1

    # ------------------------------------------------------------------ strings
    def _string(self, kind, body, term):
        if kind == "a":
            if body.startswith("G"):
                self._kitty(body[1:])
            else:
                self.log["APC other"] += 1
                self.events.append(("apc", body))
        elif kind == "o":
            if body.startswith("1337;File="):
                self._iterm2(body[len("1337;File=") :])
            elif re.fullmatch(r"1[01];\?", body):
                self.queries.append("OSC " + body[:2])
            else:
                self.log["OSC other"] += 1
                self.events.append(("osc", body[:40]))
        else:
            self.log["DCS"] += 1

    def _kitty(self, body):
        self.log["kitty cmd"] += 1
        keys_s, sep, payload = body.partition(";")
        keys = {}
        for kv in keys_s.split(","):
            if not kv:
                continue
            k, eq, v = kv.partition("=")
            if not eq or not k or k in keys:
                self.malformed.append("kitty keys " + keys_s[:60])
                return
            keys[k] = v
        action = keys.get("a")
        if self.pending is not None and action is None:
            # continuation chunk
            self.pending[1].append(payload)
            self.pending[2].append(keys)
            if keys.get("m", "0") != "1":
                k0, parts, _ = self.pending
                self.pending = None
                self._kitty_done(k0, "".join(parts))
            return
        if self.pending is not None:
            # any other graphics command before the last chunk of a transmission: the
            # protocol requires all chunks of an image to be sent first; the image is lost
            self.aborted.append("kitty chunked %s interrupted by a=%s" % (str(self.pending[0])[:40], action))
            self.pending = None
        if action == "d":
            self._mark()
            d = keys.get("d", "a")
            self.deletes.append((d, keys.get("z")))
            self.events.append(("kdel", d, keys.get("z"), self.r, self.c))
            is_k = lambda p: True  # konsole: iterm2 images share the implementation
            if d in "aA":
                self.placements = []
            elif d in "cC":
                self.placements = [
                    p for p in self.placements if not p.covers(self.r, self.c)
                ]
            elif d in "zZ":
                try:
                    z = int(keys["z"])
                except (KeyError, ValueError):
                    self.malformed.append("kitty delete " + keys_s)
                    return
                self.placements = [p for p in self.placements if p.z != z]
            else:
                self.unknown.append("kitty d=" + d)
            return
        if action == "q":
            self.queries.append("KITTY " + keys.get("i", ""))
            return
        if keys.get("m") == "1":
            self.pending = [keys, [payload], []]
            return
        self._kitty_done(keys, payload)

    def _kitty_done(self, keys, payload):
        action = keys.get("a", "t")
        if action != "T":
            self.log["kitty non-display"] += 1
            return
        self._mark()
        ok = True
        try:
            c, r = int(keys["c"]), int(keys["r"])
            z = int(keys.get("z", 0))
        except (KeyError, ValueError):
            self.malformed.append("kitty T " + str(keys))
            return
        digest = None
        try:
            raw = base64.b64decode(payload, validate=True)
            if keys.get("o") == "z":
                raw = zlib.decompress(raw)
            digest = zlib.crc32(raw) ^ (len(raw) << 8)
            if keys.get("f", "32") in ("24", "32"):
                # raw pixel data: a terminal rejects an image without pixels, or whose data
                # does not have exactly width x height x bytes-per-pixel bytes
                sw, sv = int(keys.get("s", 0)), int(keys.get("v", 0))
                if sw <= 0 or sv <= 0 or len(raw) != sw * sv * int(keys.get("f", "32")) // 8:
                    ok = False
                    self.malformed.append("kitty image data: s=%s v=%s f=%s with %d bytes" % (keys.get("s"), keys.get("v"), keys.get("f", "32"), len(raw)))
        except (binascii.Error, ValueError, zlib.error):
            ok = False
            self.malformed.append("kitty payload")
        p = Placement(
            z, self.r, self.c, c, r, digest, keys, payload if self.keep_payload else None, "kitty", ok
        )
        if not ok:
            return
        if self.personality == "konsole":
            # konsole replaces a placement at the same cell and z-index
            self.placements = [
                q for q in self.placements if (q.z, q.row, q.col) != (z, self.r, self.c)
            ]
        self.placements.append(p)
        self.events.append(("kplace", z, self.r, self.c, c, r))
        for dr in range(r):
            for dc in range(c):
                if self.r + dr < self.rows and self.c + dc < self.cols:
                    self.touched.add((self.r + dr, self.c + dc))
        if keys.get("C") != "1":
            # cursor moves: to the right of the image, on its last row
            for _ in range(r - 1):
                self._lf()
            self.c = min(self.cols - 1, self.c + c)

    def _iterm2(self, body):
        self.log["iterm2 img"] += 1
        self._mark()
        keys_s, sep, payload = body.partition(":")
        keys = {}
        for kv in keys_s.split(";"):
            k, eq, v = kv.partition("=")
            if not eq:
                self.malformed.append("iterm2 keys " + keys_s[:60])
                return
            keys[k] = v
        try:
            w, h = int(keys["width"]), int(keys["height"])
        except (KeyError, ValueError):
            self.malformed.append("iterm2 size " + keys_s[:60])
            return
        try:
            raw = base64.b64decode(payload, validate=True)
            digest = zlib.crc32(raw) ^ (len(raw) << 8)
        except (binascii.Error, ValueError):
            self.malformed.append("iterm2 payload")
            return
        if keys.get("inline") != "1":
            return
        self._img_id += 1
        iid = self._img_id
        self.images[iid] = (w, h, digest, keys, payload if self.keep_payload else None)
        if self.personality == "konsole":
            p = Placement(0, self.r, self.c, w, h, digest, keys, None, "iterm2")
            self.placements = [
                q for q in self.placements if (q.z, q.row, q.col) != (0, self.r, self.c)
            ]
            self.placements.append(p)
            self.events.append(("iplace", 0, self.r, self.c, w, h))
            for dr in range(h):
                for dc in range(w):
                    if self.r + dr < self.rows and self.c + dc < self.cols:
                        self.touched.add((self.r + dr, self.c + dc))
        else:
            # the image behaves like h lines of text: scroll when it does not fit
            over = self.r + h - self.rows
            if over > 0:
                self._scroll_up(over)
                self.r -= over
                if self.r < 0:
                    self.r = 0
            for dr in range(h):
                rr = self.r + dr
                if rr >= self.rows:
                    break
                row = self.grid[rr]
                for dc in range(w):
                    cc = self.c + dc
                    if cc < self.cols:
                        under = row[cc] if self.personality == "wezterm" else None
                        if under is not None and under[0] == "\x00img":
                            under = under[3]  # keep the text content below a stack of images
                        row[cc] = ("\x00img", iid, (dc, dr), under)
                        self.touched.add((rr, cc))
            self.events.append(("iimg", iid, self.r, self.c, w, h))
        if keys.get("doNotMoveCursor") != "1":
            self.r = min(self.rows - 1, self.r + h - 1)
            if self.c + w >= self.cols:
                self.c = self.cols - 1
                self.pw = True
            else:
                self.c += w

    # ------------------------------------------------------------------ queries
    def ground(self):
        return self.state == "g" and self.pending is None

    def sgr_default(self):
        return self.fg is None and self.bg is None and not self.attr

    def snapshot(self):
        return [list(row) for row in self.grid]

    def placement_keys(self):
        return sorted(p.key() for p in self.placements)

    def anomalies(self):
        out = []
        if self.unknown:
            out.append(("unknown", self.unknown[:4]))
        if self.malformed:
            out.append(("malformed", self.malformed[:4]))
        if self.aborted:
            out.append(("aborted", self.aborted[:4]))
        if self.state != "g":
            out.append(("parser-state", self.state))
        if self.pending is not None:
            out.append(("kitty-chunk-pending", str(self.pending[0])[:60]))
        return out


def halves(cell, default_bg_is=None, kitty_bg=None):
    """Visible (upper, lower) half colours of a text cell; None = terminal default.

    On a kitty personality, a background equal to the terminal's default background
    (*kitty_bg*) displays as default.
    """
    ch, fg, bg = cell[0], cell[1], cell[2]
    if kitty_bg is not None and bg == kitty_bg:
        bg = None
    if ch == " ":
        return (bg, bg)
    if ch == "▀":
        return (fg, bg)
    if ch == "▄":
        return (bg, fg)
    return ("?", ch)
