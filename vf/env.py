"""In-process pty environment: the worker process *is* running inside a terminal that
the harness plays (DESIGN.md 2.2, in-process variant).

``PtyEnv.install()`` must be called before ``term_image`` is imported: it opens a pty,
makes the slave the process' stdin/stdout/stderr (so that ``term_image.utils`` adopts it
as its *active terminal* exactly as in production) and starts a thread that drains the
master side, captures every byte the library writes and answers terminal queries
according to a scripted *persona*.
"""

from __future__ import annotations

import fcntl
import io
import os
import re
import struct
import sys
import termios
import threading
import time

_QUERY_RE = re.compile(
    rb"\x1b\]1([01]);\?(?:\x1b\\|\x07)"  # OSC 10/11 ?
    rb"|\x1b\[(>?)([0-9;]*)([cqt])"  # DA1 / XTVERSION / XTWINOPS
    rb"|\x1b_G([^;\x1b]*a=q[^;\x1b]*);([^\x1b]*)\x1b\\"  # kitty graphics query
    rb"|\x1b_VFSYNC(\d+)\x1b\\"  # harness sync marker
    rb"|\x1b_VFID(\d+)\x1b\\"  # id-echoing private query (C14)
)


class HarnessTimeout(TimeoutError):
    """The harness itself (not the library) failed to make progress: inconclusive."""


class Persona:
    """What the scripted terminal answers.  ``None`` = query unsupported (no reply)."""

    def __init__(
        self,
        name="other",
        version="",
        fg=None,
        bg=None,
        da1=True,
        kitty_graphics=False,
        xtversion=None,
        cell_px=None,  # XTWINOPS 16 reply (w, h) or None
        area_px=None,  # XTWINOPS 14 reply (w, h) or None
        digits=4,
        osc_term="ST",
        xtversion_style="paren",
        delay=None,  # callable(kind) -> seconds, or None
    ):
        self.name, self.version = name, version
        self.fg, self.bg = fg, bg
        self.da1 = da1
        self.kitty_graphics = kitty_graphics
        self.xtversion = (name not in ("", "other")) if xtversion is None else xtversion
        self.cell_px, self.area_px = cell_px, area_px
        self.digits = digits
        self.osc_term = osc_term
        self.xtversion_style = xtversion_style
        self.delay = delay

    def _rgb(self, col):
        d = self.digits
        mx = (1 << (4 * d)) - 1
        comps = []
        for v in col:
            if isinstance(v, str):  # raw hex component given
                comps.append(v)
            else:
                # smallest d-digit value that scales back to v with the documented
                # formula value*255 // max
                x = -(-v * mx // 255)
                comps.append("%0*x" % (d, x))
        return "rgb:" + "/".join(comps)

    def reply(self, kind, arg=None):
        term = b"\x1b\\" if self.osc_term == "ST" else b"\x07"
        if kind == "fg":
            return None if self.fg is None else b"\x1b]10;" + self._rgb(self.fg).encode() + term
        if kind == "bg":
            return None if self.bg is None else b"\x1b]11;" + self._rgb(self.bg).encode() + term
        if kind == "da1":
            return b"\x1b[?62;4c" if self.da1 else None
        if kind == "xtversion":
            if not self.xtversion:
                return None
            if self.version is None:
                body = self.name  # some terminals give their name only
            elif self.xtversion_style == "paren":
                body = "%s(%s)" % (self.name, self.version)
            else:
                body = "%s %s" % (self.name, self.version)
            return b"\x1bP>|" + body.encode() + b"\x1b\\"
        if kind == "kitty":
            if not self.kitty_graphics:
                return None
            if self.kitty_graphics is not True:
                # the terminal knows the protocol but refuses this command: an error reply
                return b"\x1b_Gi=" + arg + b";" + str(self.kitty_graphics).encode() + b"\x1b\\"
            return b"\x1b_Gi=" + arg + b";OK\x1b\\"
        if kind == "cell_px":
            return None if not self.cell_px else b"\x1b[6;%d;%dt" % (self.cell_px[1], self.cell_px[0])
        if kind == "area_px":
            return None if not self.area_px else b"\x1b[4;%d;%dt" % (self.area_px[1], self.area_px[0])
        return None


PERSONAS = {
    "other": dict(name="other", xtversion=False),
    "kitty-0.19": dict(name="kitty", version="0.19.3", kitty_graphics=True),
    "kitty-0.25": dict(name="kitty", version="0.25.0", kitty_graphics=True),
    "kitty-0.25.2": dict(name="kitty", version="0.25.2", kitty_graphics=True),  # between the two version conditions
    "kitty-0.32": dict(name="kitty", version="0.32.2", kitty_graphics=True),
    "konsole": dict(name="Konsole", version="22.04.3", kitty_graphics=True, xtversion_style="space"),
    "konsole-old": dict(name="Konsole", version="21.12.3", kitty_graphics=False, xtversion_style="space"),
    "wezterm": dict(name="WezTerm", version="20230712-072601-f4abf8fd", xtversion_style="space"),
    "iterm2": dict(name="iTerm2", version="3.4.19", xtversion_style="space"),
}


def vt_personality(persona_name):
    n = persona_name.split("-")[0]
    return n if n in ("kitty", "konsole", "wezterm", "iterm2") else "other"


class PtyEnv:
    instance = None

    def __init__(self, persona=None, cols=80, rows=24, xpix=0, ypix=0):
        self.persona = persona or Persona()
        self.master, self.slave = os.openpty()
        self.slave_name = os.ttyname(self.slave)
        self.lock = threading.Lock()
        self.cap = bytearray()
        self.capturing = True
        self._scan = bytearray()
        self._sync_seen = 0
        self._sync_n = 0
        self._cv = threading.Condition()
        self.queries = []
        self.replies_sent = 0
        self.query_log = []  # (kind, t) for C12/C14 style observation
        self.real_out = None
        self.real_err = None
        self._stop = False
        self.hold_replies = False  # when True, replies are queued in self.held
        self.held = []
        self.set_winsize(cols, rows, xpix, ypix)
        self.sane_attr = termios.tcgetattr(self.slave)
        self.thread = threading.Thread(target=self._drain, name="vf-terminal", daemon=True)
        self.thread.start()

    # ------------------------------------------------------------------ setup
    @classmethod
    def install(cls, persona=None, cols=80, rows=24, xpix=0, ypix=0):
        """Creates the pty and makes it this process' terminal (fds 0, 1, 2)."""
        assert "term_image" not in sys.modules, "install() must precede import term_image"
        env = cls(persona, cols, rows, xpix, ypix)
        sys.stdout.flush()
        sys.stderr.flush()
        env.real_out = os.dup(1)
        env.real_err = os.dup(2)
        os.dup2(env.slave, 0)
        os.dup2(env.slave, 1)
        os.dup2(env.slave, 2)
        # Fresh text streams over the (now tty) descriptors, as the interpreter would
        # have created them had it been started on this terminal.
        sys.stdin = sys.__stdin__ = io.TextIOWrapper(
            io.FileIO(0, "r", closefd=False), encoding="utf-8"
        )
        sys.stdout = sys.__stdout__ = io.TextIOWrapper(
            io.FileIO(1, "w", closefd=False),
            encoding="utf-8",
            errors="surrogateescape",
            line_buffering=True,
            write_through=False,
        )
        # diagnostics must not go to the terminal under test
        sys.stderr = io.TextIOWrapper(
            io.FileIO(env.real_err, "w", closefd=False), encoding="utf-8", line_buffering=True
        )
        sys.__stderr__ = sys.stderr
        cls.instance = env
        return env

    def set_winsize(self, cols, rows, xpix=0, ypix=0):
        fcntl.ioctl(self.master, termios.TIOCSWINSZ, struct.pack("HHHH", rows, cols, xpix, ypix))
        self.cols, self.rows, self.xpix, self.ypix = cols, rows, xpix, ypix

    # ------------------------------------------------------------------ terminal side
    def _drain(self):
        """Terminal thread: never blocks for good -- the master is non-blocking, reads are
        multiplexed with select and a reply that cannot be written at once is dropped."""
        import select

        master = self.master
        os.set_blocking(master, False)
        while not self._stop:
            try:
                r, _, _ = select.select([master], [], [], 0.25)
            except (OSError, ValueError):
                break
            if not r:
                continue
            try:
                data = os.read(master, 1 << 16)
            except BlockingIOError:
                continue
            except OSError:
                break
            if not data:
                break
            try:
                self._on_output(data)
            except Exception:
                import traceback

                self.diag("vf-terminal thread error:", traceback.format_exc())
                self._scan = bytearray()

    def _on_output(self, data):
        scan = self._scan
        scan += data
        pos = 0
        out = bytearray()
        for m in _QUERY_RE.finditer(scan):
            out += scan[pos : m.start()]
            pos = m.end()
            g = m.groups()
            if g[6] is not None:  # sync marker: not part of the captured stream
                with self._cv:
                    if self.capturing:
                        self.cap += out
                    out = bytearray()
                    self._sync_seen = int(g[6])
                    self._cv.notify_all()
                continue
            out += m.group()  # queries stay in the captured stream
            if g[0] is not None:
                self._answer("fg" if g[0] == b"0" else "bg")
            elif g[3] is not None:
                gt, params, final = g[1], g[2], g[3]
                if final == b"c" and not gt and params in (b"", b"0"):
                    self._answer("da1")
                elif final == b"q" and gt and not params:
                    self._answer("xtversion")
                elif final == b"t" and not gt and params == b"16":
                    self._answer("cell_px")
                elif final == b"t" and not gt and params == b"14":
                    self._answer("area_px")
            elif g[4] is not None:
                keys = dict(kv.split(b"=", 1) for kv in g[4].split(b",") if b"=" in kv)
                self._answer("kitty", keys.get(b"i", b"0"))
            elif g[7] is not None:
                self._answer("id", g[7])
        # keep a possibly incomplete sequence for the next round
        rest = scan[pos:]
        # Hold back from the LEFTMOST escape in the tail window that may still become a
        # query or marker (the last ESC may be the terminator of exactly such a sequence)
        hold = -1
        k = rest.find(b"\x1b", max(0, len(rest) - 96))
        while k != -1:
            if not _complete_tail(rest[k:]):
                hold = k
                break
            k = rest.find(b"\x1b", k + 1)
        if hold != -1:
            out += rest[:hold]
            self._scan = bytearray(rest[hold:])
        else:
            out += rest
            self._scan = bytearray()
        if out:
            with self._cv:
                if self.capturing:
                    self.cap += out

    def _answer(self, kind, arg=None):
        self.queries.append(kind)
        if kind == "id":
            rep = b"\x1b_VFID" + arg + b"\x1b\\" if getattr(self.persona, "id_echo", True) else None
        else:
            rep = self.persona.reply(kind, arg)
        self.query_log.append((kind, time.monotonic(), rep is not None))
        if rep is None:
            return
        if self.hold_replies:
            self.held.append(rep)
            return
        d = self.persona.delay(kind) if self.persona.delay else 0
        if d:
            time.sleep(d)
        # a reply must never block the terminal thread (nobody may be reading input)
        try:
            n = os.write(self.master, rep)
            if n == len(rep):
                self.replies_sent += 1
            else:
                self.replies_dropped = getattr(self, "replies_dropped", 0) + 1
        except BlockingIOError:
            self.replies_dropped = getattr(self, "replies_dropped", 0) + 1

    def flush_input(self):
        """Discards input nobody read (replies to garbage that looked like a query, replies
        that came after the library had given up waiting).  The terminal thread is brought
        up to date first: a reply still in flight would otherwise arrive after the flush
        and be taken for the answer to the next query."""
        try:
            self.sync()
        except HarnessTimeout:
            pass
        termios.tcflush(self.slave, termios.TCIFLUSH)

    def type_input(self, data: bytes):
        """Simulates the user typing / the terminal sending unsolicited input."""
        try:
            os.write(self.master, data)
        except BlockingIOError:
            pass

    # ------------------------------------------------------------------ subject side
    def sync(self, timeout=60.0):
        """Waits until everything written so far has been seen by the terminal."""
        try:
            sys.stdout.flush()
        except Exception:
            pass
        with self._cv:
            self._sync_n += 1
            n = self._sync_n
        os.write(self.slave, b"\x1b_VFSYNC%d\x1b\\" % n)
        with self._cv:
            ok = self._cv.wait_for(lambda: self._sync_seen >= n, timeout)
        if not ok:
            import traceback

            fr = sys._current_frames().get(self.thread.ident)
            where = "".join(traceback.format_stack(fr)[-4:]) if fr else "no frame"
            raise HarnessTimeout(
                "terminal thread did not see the sync marker %d (seen %d, alive %s, scan %d bytes %r, cap %d, pending input %s)\n%s"
                % (n, self._sync_seen, self.thread.is_alive(), len(self._scan), bytes(self._scan[:60]), len(self.cap), self._pending_safe(), where)
            )

    def _pending_safe(self):
        try:
            return self.pending_input()
        except Exception as e:
            return repr(e)

    def take(self):
        """Returns and clears the bytes written to the terminal so far."""
        self.sync()
        with self._cv:
            data = bytes(self.cap)
            del self.cap[:]
        return data

    def tcgetattr(self):
        return termios.tcgetattr(self.slave)

    def pending_input(self):
        """Number of bytes waiting unread on the slave side (FIONREAD)."""
        buf = bytearray(4)
        fcntl.ioctl(self.slave, termios.FIONREAD, buf)
        return struct.unpack("i", buf)[0]

    def diag(self, *a):
        os.write(self.real_err if self.real_err is not None else 2, (" ".join(map(str, a)) + "\n").encode())


def _complete_tail(tail: bytes) -> bool:
    """True if *tail* (starting with ESC) cannot be the beginning of a query."""
    # CSI with final byte, or anything that is clearly not one of our query prefixes
    if len(tail) >= 2 and tail[1:2] not in b"[]_":
        return True
    if tail[1:2] == b"[":
        return any(0x40 <= b <= 0x7E for b in tail[2:])
    if tail[1:2] == b"]":
        return not (b"\x1b]1"[: len(tail)] == tail[:4][: len(tail)] or tail.startswith(b"\x1b]1"))
    if tail[1:2] == b"_":
        if len(tail) < 3:
            return False
        if tail[2:3] == b"V":
            return False
        if tail[2:3] == b"G":
            # a kitty command: only queries (a=q, short) matter; payload-bearing
            # display commands are long, we only hold back short tails
            return b";" in tail and b"a=q" not in tail.split(b";", 1)[0]
        return True
    return False
