"""Operation histories on RenderIterator: generation, execution on the real iterator,
and the expected observation from the reference model (shared by C08, C09, C10)."""

from __future__ import annotations

import itertools
import os

from .models import iterator as im
from .models import padding as pm

PADS = [
    dict(type="exact", dims=[0, 0, 0, 0], fill=" "),
    dict(type="exact", dims=[1, 0, 2, 1], fill=" "),
    dict(type="exact", dims=[0, 2, 0, 0], fill="*"),
    dict(type="aligned", width=5, height=3, h=1, v=1, fill=" "),
    dict(type="aligned", width=4, height=2, h=0, v=2, fill=""),
    dict(type="aligned", width=0, height=-2, h=1, v=1, fill=" "),
    dict(type="aligned", width=-3, height=4, h=2, v=0, fill="."),
    dict(type="aligned", width=1, height=1, h=1, v=1, fill=" "),
    # pairs of different paddings that give the same padded size
    dict(type="aligned", width=5, height=3, h=0, v=0, fill=" "),
    dict(type="aligned", width=5, height=3, h=2, v=2, fill="*"),
    dict(type="exact", dims=[2, 0, 0, 1], fill=" "),
    dict(type="exact", dims=[0, 1, 2, 0], fill=" "),
    dict(type="exact", dims=[1, 0, 2, 1], fill="."),
]


def build_padding(pd):
    from term_image.padding import AlignedPadding, ExactPadding, HAlign, VAlign

    if pd["type"] == "exact":
        return ExactPadding(*pd["dims"], pd["fill"])
    return AlignedPadding(pd["width"], pd["height"], HAlign(pd["h"]), VAlign(pd["v"]), pd["fill"])


def resolve_desc(pd, term):
    """Resolution of relative dimensions against the terminal size *now*."""
    if pd["type"] == "aligned" and (pd["width"] <= 0 or pd["height"] <= 0):
        return dict(pd, width=pm.absolute(pd["width"], term[0]), height=pm.absolute(pd["height"], term[1]))
    return pd


class Shadow:
    """Settings in force for the next rendered frame."""

    def __init__(self, cfg, term):
        self.dur = cfg["dur0"]
        self.size = tuple(cfg["size0"])
        self.pad = resolve_desc(cfg["pad0"], term)
        self.tag = cfg.get("tag0", 0)
        self.kind = cfg["kind"]


def make_subject(cfg):
    from term_image.renderable import FrameCount, FrameDuration

    from .subjects import Subj

    dur = FrameDuration.DYNAMIC if cfg["dur0"] == "DYNAMIC" else cfg["dur0"]
    if cfg.get("indef_len") is not None:
        s = Subj(FrameCount.INDEFINITE, dur, cfg["size0"], cfg["kind"], indef_len=cfg["indef_len"])
    else:
        s = Subj(cfg["n"], dur, cfg["size0"], cfg["kind"])
        if cfg.get("tell0"):
            s.seek(cfg["tell0"])
    return s


def make_iterator(subj, cfg, cache=None):
    from term_image.render import RenderIterator
    from term_image.renderable import RenderArgs

    from .subjects import Subj, SubjArgs

    args = RenderArgs(Subj, SubjArgs(cfg["tag0"])) if cfg.get("tag0") else None
    cache = cfg["cache"] if cache is None else cache
    if cfg.get("reuse") is not None and cfg.get("n"):
        # the iterator is built over render data its caller owns and has already used for an
        # earlier iterator (``finalize=False``; advanced, possibly left with a seek pending,
        # then closed): an iteration starts at frame 0 whatever the data went through
        data = subj._get_render_data_(iteration=True)
        first = RenderIterator._from_render_data_(subj, data, args, build_padding(cfg["pad0"]), cfg["loops"], cache, finalize=False)
        for op in cfg["reuse"]:
            apply_real(first, op)
        first.close()
        return RenderIterator._from_render_data_(subj, data, args, build_padding(cfg["pad0"]), cfg["loops"], cache, finalize=True)
    return RenderIterator(subj, args, build_padding(cfg["pad0"]), cfg["loops"], cache)


def expected_frame(number, sh, subj_dyn):
    """-> (number, duration, padded size, output) for the settings in force."""
    from term_image.geometry import Size

    from .subjects import synth_render

    dur = subj_dyn[number % len(subj_dyn)] if sh.dur == "DYNAMIC" else sh.dur
    W, H = sh.size
    inner = synth_render(sh.kind, W, H, number * 3 + sh.tag)
    pad = build_padding(sh.pad)
    psize = tuple(pad.get_padded_size(Size(W, H)))
    out = inner if psize == (W, H) else pad.pad(inner, Size(W, H))
    return (number, dur, psize, out)


def apply_real(it, op, env=None):
    """Executes *op* on the real iterator; returns the observation."""
    from term_image.geometry import Size
    from term_image.render import FinalizedIteratorError
    from term_image.renderable import FrameDuration, IncompatibleRenderArgsError, RenderArgs, Seek

    from .subjects import Other, OtherArgs, Subj, SubjArgs

    k = op[0]
    try:
        if k == "next":
            try:
                f = next(it)
            except StopIteration:
                return ("stop",)
            return ("frame", f.number, f.duration, tuple(f.render_size), f.render_output)
        if k == "seek":
            it.seek(op[1], Seek(op[2]))
        elif k == "dur":
            it.set_frame_duration(FrameDuration.DYNAMIC if op[1] == "DYNAMIC" else op[1])
        elif k == "pad":
            it.set_padding(build_padding(op[1]))
        elif k == "args":
            it.set_render_args(RenderArgs(Subj, SubjArgs(op[1])))
        elif k == "args_base":
            from term_image.renderable import Renderable

            it.set_render_args(RenderArgs(Renderable))
        elif k == "args_bad":
            it.set_render_args(RenderArgs(Other, OtherArgs(3)))
        elif k == "size":
            it.set_render_size(Size(op[1], op[2]))
        elif k == "close":
            it.close()
        elif k == "resize":
            env.set_winsize(op[1], op[2])
        else:
            raise AssertionError(op)
        return ("ok",)
    except FinalizedIteratorError:
        return ("err", "FinalizedIteratorError")
    except IncompatibleRenderArgsError:
        return ("err", "IncompatibleRenderArgsError")
    except ValueError:
        return ("err", "ValueError")
    except Exception as e:
        return ("err", type(e).__name__ + ": " + str(e)[:80])


def apply_model(m, sh, op, term, dyn):
    """Advances the model; returns the expected observation."""
    k = op[0]
    if k == "next":
        r = m.do_next()
        if r[0] == "frame":
            return ("frame",) + expected_frame(r[1], sh, dyn)
        return r
    if k == "seek":
        return m.do_seek(op[1], op[2])
    if k == "dur":
        valid = op[1] == "DYNAMIC" or op[1] > 0
        r = m.do_setting(valid)
        if r == ("ok",):
            sh.dur = op[1]
        return r
    if k == "pad":
        r = m.do_setting(True)
        if r == ("ok",):
            sh.pad = resolve_desc(op[1], term)
        return r
    if k == "args":
        r = m.do_setting(True)
        if r == ("ok",):
            sh.tag = op[1]
        return r
    if k == "args_base":
        r = m.do_setting(True)
        if r == ("ok",):
            sh.tag = 0  # the parent's set carries only defaults for the subject
        return r
    if k == "args_bad":
        return m.do_setting(False, "IncompatibleRenderArgsError")
    if k == "size":
        r = m.do_setting(True)
        if r == ("ok",):
            sh.size = (op[1], op[2])
        return r
    if k == "close":
        return m.do_close()
    if k == "resize":
        return ("ok",)
    raise AssertionError(op)


def gen_config(rnd, definite=None):
    indef = rnd.random() < 0.25 if definite is None else not definite
    cfg = dict(
        loops=rnd.choice([-1, 1, 2, 3]),
        dur0=rnd.choice([7, 7, 1, "DYNAMIC"]),
        size0=[rnd.randint(1, 4), rnd.randint(1, 3)],
        pad0=rnd.choice(PADS),
        kind=rnd.choice(["text", "text", "sgr", "ech"]),
        tag0=rnd.choice([0, 0, 2]),
    )
    if indef:
        cfg["indef_len"] = rnd.randint(0, 6)
        cfg["n"] = None
        cfg["cache"] = rnd.choice([False, True, 3])
    else:
        cfg["n"] = rnd.randint(2, 6)
        cfg["cache"] = rnd.choice([False, True, cfg["n"] - 1, cfg["n"], cfg["n"] + 1, 100])
        cfg["tell0"] = rnd.choice([0, 0, rnd.randrange(cfg["n"])])
        if rnd.random() < 0.2:
            n = cfg["n"]
            cfg["reuse"] = [["next"]] * rnd.choice([0, 1, n - 1, n, rnd.randint(0, 2 * n)]) + ([["seek", rnd.randint(-n, n), rnd.randrange(3)]] if rnd.random() < 0.5 else [])
    return cfg


def gen_op(rnd, cfg, with_resize=False):
    n = cfg["n"] or 4
    r = rnd.random()
    if r < 0.42:
        return ["next"]
    if r < 0.62:
        wh = rnd.randrange(3)
        off = rnd.choice([0, 1, -1, n - 1, n, -n, rnd.randint(-n - 1, n + 1)])
        return ["seek", off, wh]
    if r < 0.69:
        # (1 and 2**61 hash alike, as -1 and -2 do below: values that differ but collide)
        return ["dur", rnd.choice([1, 9, "DYNAMIC", 0, -3, 12, 1, 2**61])]
    if r < 0.77:
        return ["pad", rnd.choice(PADS)]
    if r < 0.84:
        return [rnd.choice(["args", "args", "args_bad", "args_base"]), rnd.choice([0, 1, 2, 3, -1, -2, -1, -2, 2**61 - 1])]
    if r < 0.92:
        return ["size", rnd.randint(1, 4), rnd.randint(1, 3)]
    if r < 0.96 and with_resize:
        return ["resize", rnd.randint(2, 40), rnd.randint(2, 20)]
    return ["close"]


ALPHABET12 = [
    lambda n: ["next"],
    lambda n: ["seek", 0, 0],
    lambda n: ["seek", n - 1, 0],
    lambda n: ["seek", 1, 1],
    lambda n: ["seek", -1, 1],
    lambda n: ["seek", 0, 2],
    lambda n: ["seek", n, 0],
    lambda n: ["dur", 9],
    lambda n: ["pad", PADS[1]],
    lambda n: ["args", 1],
    lambda n: ["size", 2, 2],
    lambda n: ["close"],
]


def all_histories(maxlen, n, index, nshards):
    k = 0
    for L in range(1, maxlen + 1):
        for tup in itertools.product(range(12), repeat=L):
            if k % nshards == index:
                yield [ALPHABET12[i](n) for i in tup]
            k += 1
