"""Harness pieces shared by the draw() checks (C06, C07): stdout tap with in-band flush
markers, virtual time, screen comparison."""

from __future__ import annotations

import os
import sys

from .vterm import VTerm

MARK = b"\x1b_VFMARK\x1b\\"


class TapOut:
    """Proxy for sys.stdout that delegates to the ORIGINAL stream object (the kitty/iterm2
    modules captured its ``write`` at import, so both paths must share one buffer) and puts
    an in-band marker into the terminal stream after every flush (= frame boundary).

    Optionally injects a fault at the k-th operation (see C07)."""

    def __init__(self, orig, mark=True, tty=True):
        self._o = orig
        self._mark = mark
        self._tty = tty
        self.ops = []  # (kind, nbytes)
        self.fault = None  # (op index, prefix length or None, exception)
        self.fired = None
        self.on_op = None  # callback(kind, index) -> used for stack classification

    def _maybe_fault(self, kind, data=None):
        idx = len(self.ops)
        self.ops.append((kind, len(data) if data is not None else 0))
        if self.on_op:
            self.on_op(kind, idx, data)
        if self.fault and self.fault[0] == idx and self.fired is None:
            self.fired = (kind, idx)
            _, prefix, exc = self.fault
            if kind == "write" and prefix:
                self._o.write(data[:prefix])
                self._o.flush()
            raise exc

    def write(self, s):
        self._maybe_fault("write", s)
        return self._o.write(s)

    def flush(self):
        self._maybe_fault("flush")
        self._o.flush()
        if self._mark:
            os.write(self._o.fileno(), MARK)

    def isatty(self):
        return self._tty

    def fileno(self):
        return self._o.fileno()

    @property
    def encoding(self):
        return self._o.encoding

    def __getattr__(self, name):
        return getattr(self._o, name)


class VirtualTime:
    """Stands in for the ``time`` module / ``sleep`` in the library's namespaces."""

    def __init__(self):
        self.now = 1000.0
        self.slept = 0.0
        self.sleeps = 0
        self.on_sleep = None

    def time(self):
        return self.now

    def monotonic(self):
        return self.now

    def perf_counter_ns(self):
        return int(self.now * 1e9)

    def sleep(self, d):
        self.sleeps += 1
        if self.on_sleep:
            self.on_sleep(d)
        self.now += max(d, 0) + 1e-4
        self.slept += max(d, 0)


class patched_time:
    def __init__(self, vt):
        self.vt = vt

    def __enter__(self):
        import term_image.image.common as common
        import term_image.renderable._renderable as rmod

        self.saved = (common.time, rmod.sleep, rmod.perf_counter_ns)
        common.time = self.vt
        rmod.sleep = self.vt.sleep
        rmod.perf_counter_ns = self.vt.perf_counter_ns
        return self.vt

    def __exit__(self, *a):
        import term_image.image.common as common
        import term_image.renderable._renderable as rmod

        common.time, rmod.sleep, rmod.perf_counter_ns = self.saved


def unique_fill(rows, cols):
    """Initial screen content in which every cell is different (so that any shift or
    stray write is visible)."""
    return [[(chr(0x4E00 + (r * 211 + c * 17) % 20000), "S", "S") for c in range(cols)] for r in range(rows)]


def new_screen(rows, cols, personality, r0, raw=True):
    vt = VTerm(rows, cols, personality, cooked=not raw)
    vt.grid = unique_fill(rows, cols)
    vt.r, vt.c = r0, 0
    return vt


def cell_view(vt, cell):
    if cell[0] == "\x00img":
        im = vt.images.get(cell[1])
        under = cell[3] if len(cell) > 3 else None
        # wezterm draws images over the existing cell content: what is underneath shows
        # through transparent areas, so it is part of what the screen looks like
        return ("img", im[2] if im else None, cell[2], under)
    return cell


def screen_view(vt):
    grid = [[cell_view(vt, c) for c in row] for row in vt.grid]
    places = sorted({(p.row, p.col, p.c, p.r, p.digest) for p in vt.placements})
    return grid, places


def diff_views(a, b, limit=3):
    ga, pa = a
    gb, pb = b
    out = []
    for r, (ra, rb) in enumerate(zip(ga, gb)):
        if ra != rb:
            for c, (x, y) in enumerate(zip(ra, rb)):
                if x != y:
                    out.append(("cell", r, c, x, y))
                    break
            if len(out) >= limit:
                break
    if pa != pb:
        out.append(("placements", pa[:3], pb[:3]))
    return out


def split_marks(data: bytes):
    return data.split(MARK)
