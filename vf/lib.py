"""Helpers that talk to the library under test through its public API only (plus the
few documented-internal entry points named in DESIGN.md)."""

from __future__ import annotations

import os


def import_lib():
    import term_image
    from term_image import image as ti_image

    return term_image, ti_image


def setup_styles(env):
    """Lets the library find out what terminal it is on (real queries answered by the
    scripted terminal) and forces support for styles the identity does not support, so
    that every style can be rendered under every identity (public ``forced_support``)."""
    import term_image
    from term_image.image import BlockImage, ITerm2Image, KittyImage

    # The scripted terminal answers every query it is asked here; on a loaded machine its
    # reply may take longer than the library's default 0.1 s, which must not change what
    # the library believes about its terminal.
    term_image.set_query_timeout(5.0)
    sup = {
        "kitty": KittyImage.is_supported(),
        "iterm2": ITerm2Image.is_supported(),
        "block": BlockImage.is_supported(),
    }
    if not sup["kitty"]:
        KittyImage.forced_support = True
    if not sup["iterm2"]:
        ITerm2Image.forced_support = True
    return sup


def set_terminal(env, cols, rows, cw=0, ch=0, extra=(0, 0)):
    """Resizes the pty (cells and pixels) and drops the library's cell-size cache through
    the public win-size-swap toggles."""
    import term_image

    env.set_winsize(cols, rows, cols * cw + extra[0] if cw else 0, rows * ch + extra[1] if ch else 0)
    term_image.enable_win_size_swap()
    term_image.disable_win_size_swap()


def refresh_queries():
    """Public way of dropping the fg/bg + name/version + cell size caches."""
    import term_image

    term_image.disable_queries()
    term_image.enable_queries()


def style_classes():
    from term_image.image import BlockImage, ITerm2Image, KittyImage

    return {"block": BlockImage, "kitty": KittyImage, "iterm2": ITerm2Image}


def fd_count():
    return len(os.listdir("/proc/self/fd"))


def add_deps_path():
    """icontract etc. live in /verif/.deps; appended *after* site-packages so that the
    repository's own dependencies are never shadowed."""
    import sys

    p = os.path.join(os.environ.get("VERIF_ROOT", "/verif"), ".deps")
    if p not in sys.path:
        sys.path.append(p)
