"""Process target of a *relay*: a process in the middle of the tree that has nothing to do
with the library (a supervisor, a dispatcher) -- this module imports neither term_image nor
anything that does.  It starts one process of the kind that imports the library only inside
its target and waits for it; with spawn / forkserver the library is never imported here."""

import json
import multiprocessing
import os
import sys


def relay_main(cfg, tag, seed, level):
    from . import c14_lazy  # (does not import the library either)

    with open(os.path.join(os.environ["VF_C14_DIR"], "log-%d.jsonl" % os.getpid()), "a") as f:
        f.write(json.dumps(["R", os.getpid(), tag, "term_image" in sys.modules]) + "\n")
    p = multiprocessing.Process(target=c14_lazy.lazy_main, args=(dict(cfg, create="lazy"), tag + ".r", seed, level))
    p.start()
    p.join(40)
    with open(os.path.join(os.environ["VF_C14_DIR"], "log-%d.jsonl" % os.getpid()), "a") as f:
        f.write(json.dumps(["R", os.getpid(), tag, "term_image" in sys.modules]) + "\n")
    if p.is_alive():
        p.kill()
