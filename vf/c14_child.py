"""Workload executed in every process of a C14 run (importable by spawn/forkserver
children).  Every process appends its observations to its own JSON-lines file."""

from __future__ import annotations

import functools
import json
import multiprocessing
import os
import random
import threading
import time

# Imported at module level on purpose: a spawn / forkserver child unpickles its target
# (this module) before Process.run() is called, and the library can only hand its lock
# over to a child in which it has been imported by then -- as in any application whose
# process targets live in a module that uses the library.
import term_image  # noqa: F401,E402
from term_image import utils as _utils  # noqa: F401,E402


def _log_path():
    return os.path.join(os.environ["VF_C14_DIR"], "log-%d.jsonl" % os.getpid())


class ProbeFailure(Exception):
    pass


_probe = None
_wrapped_probe = None
_log_lock = threading.Lock()


def get_probe():
    """The lock_tty-decorated probe (created lazily, after term_image is imported)."""
    global _probe
    if _probe is None:
        from term_image import utils

        @utils.lock_tty
        def probe(tag, depth, hold, fail=False):
            t0 = time.monotonic_ns()
            lock0 = id(utils._tty_lock), type(utils._tty_lock).__module__.split(".")[0] + "." + type(utils._tty_lock).__name__
            if depth:
                try:
                    probe(tag, depth - 1, hold, fail)  # re-entrant call from the same thread
                except ProbeFailure:
                    if depth % 2:
                        raise  # failures cross some of the nesting levels
            if hold:
                time.sleep(hold)
            lock1 = id(utils._tty_lock)
            t1 = time.monotonic_ns()
            rec = ["I", os.getpid(), threading.get_ident(), tag, depth, t0, t1, lock0[1], lock0[0] != lock1]
            with _log_lock:
                with open(_log_path(), "a") as f:
                    f.write(json.dumps(rec) + "\n")
            if fail and not depth:
                raise ProbeFailure(tag)  # a synchronized call that ends with an exception

        _probe = probe

        # A function synchronized as a whole although it merely wraps (functools.wraps)
        # one that is synchronized already: its own part of the body (the wrapper "logs to
        # the terminal" before delegating) is a critical section too.
        def announced(f):
            @functools.wraps(f)
            def wrapper(tag, depth, hold, fail=False):
                t0 = time.monotonic_ns()
                locktype = type(utils._tty_lock).__module__.split(".")[0] + "." + type(utils._tty_lock).__name__
                time.sleep(0.0002)
                try:
                    return f(tag, depth, hold, fail)
                finally:
                    rec = ["I", os.getpid(), threading.get_ident(), tag + "/outer", depth, t0, time.monotonic_ns(), locktype, False]
                    with _log_lock:
                        with open(_log_path(), "a") as fl:
                            fl.write(json.dumps(rec) + "\n")

            return wrapper

        global _wrapped_probe
        _wrapped_probe = utils.lock_tty(announced(probe))
    return _probe


_qid = [0]
_qid_lock = threading.Lock()


def _reinit_locks_after_fork():
    # a fork()ed child must not inherit the harness' own locks in a locked state (another
    # thread of the parent may have held them at the moment of the fork)
    global _log_lock, _qid_lock
    _log_lock = threading.Lock()
    _qid_lock = threading.Lock()


os.register_at_fork(after_in_child=_reinit_locks_after_fork)


def query(tag):
    """One id-echoing query through the library; logs whether the reply was ours."""
    from term_image import utils

    with _qid_lock:
        _qid[0] += 1
        n = (os.getpid() % 100000) * 10000 + _qid[0]
    req = b"\x1b_VFID%d\x1b\\" % n
    t0 = time.monotonic_ns()
    resp = utils.query_terminal(req, lambda s: not s.endswith(b"\x1b\\"), 3.0)
    t1 = time.monotonic_ns()
    rec = ["Q", os.getpid(), threading.get_ident(), tag, n, (resp or b"").decode("latin-1"), t0, t1]
    with _log_lock:
        with open(_log_path(), "a") as f:
            f.write(json.dumps(rec) + "\n")


def compound(tag):
    """A compound query helper of the library (query + drain of the rest of the reply):
    it must report what the terminal said, whoever else is using the terminal."""
    from term_image import utils

    import term_image

    # generous: the scripted terminal is a thread of a very busy process; a late reply must
    # not look like a lost one
    term_image.set_query_timeout(3.0)
    fn = utils.get_terminal_name_version
    fn._invalidate_cache()  # documented attribute of @cached wrappers
    t0 = time.monotonic_ns()
    got = fn()
    t1 = time.monotonic_ns()
    with _log_lock:
        with open(_log_path(), "a") as f:
            f.write(json.dumps(["C", os.getpid(), threading.get_ident(), tag, list(got), t0, t1]) + "\n")


def bystander(tag):
    """Nobody types anything in these runs: a direct read of all available input must
    return nothing -- any byte is (part of) a reply addressed to another caller."""
    from term_image import utils

    t0 = time.monotonic_ns()
    got = utils.read_tty_all()
    t1 = time.monotonic_ns()
    if got:
        with _log_lock:
            with open(_log_path(), "a") as f:
                f.write(json.dumps(["B", os.getpid(), threading.get_ident(), tag, got.decode("latin-1"), t0, t1]) + "\n")
    else:
        with _log_lock:
            with open(_log_path(), "a") as f:
                f.write(json.dumps(["b", os.getpid()]) + "\n")


def _one_op(rnd, probe, tag, queries, compound_ok):
    r = rnd.random()
    if queries and r < 0.2:
        query(tag)
    elif queries and compound_ok and r < 0.3:
        compound(tag)
    elif queries and r < 0.42:
        bystander(tag)
    elif r < 0.5:
        # synchronized calls may fail; the thread goes on using the terminal afterwards
        try:
            probe(tag, rnd.choice([0, 1, 2]), 0, True)
        except ProbeFailure:
            pass
    elif r < 0.6:
        _wrapped_probe(tag, rnd.choice([0, 0, 1]), rnd.choice([0, 0.0002]))
    else:
        probe(tag, rnd.choice([0, 0, 1, 2]), rnd.choice([0, 0.0002, 0.001]))


_ready_n = [0]


def announce_ready():
    """Rendezvous through the run's directory: one file per process that has reached its
    workload (or, written by its parent, per process whose start failed)."""
    _ready_n[0] += 1
    open(os.path.join(os.environ["VF_C14_DIR"], "ready-%d-%d" % (os.getpid(), _ready_n[0])), "w").close()


def all_ready(expect):
    return sum(1 for f in os.listdir(os.environ["VF_C14_DIR"]) if f.startswith("ready-")) >= expect


def hammer(tag, n, seed, queries=True, compound_ok=True, expect=0):
    """Phase 1: *n* operations right away (they race with the starts of the processes).
    Then, when *expect* is given: keep going at a low rate until every process of the tree
    has announced itself (a spawned grandchild takes a second to get there), and do *n*
    more operations while the whole tree is alive -- otherwise the early processes would
    be done long before the late ones begin and nothing could ever overlap."""
    rnd = random.Random(seed)
    probe = get_probe()
    for i in range(n):
        _one_op(rnd, probe, tag, queries, compound_ok)
        if rnd.random() < 0.3:
            time.sleep(rnd.uniform(0, 0.001))
    if not expect:
        return
    deadline = time.monotonic() + 12
    while not all_ready(expect) and time.monotonic() < deadline:
        probe(tag + "/wait", 0, 0)
        time.sleep(rnd.uniform(0.002, 0.006))
    for i in range(n):
        _one_op(rnd, probe, tag + "/all", queries, compound_ok)
        if rnd.random() < 0.3:
            time.sleep(rnd.uniform(0, 0.001))


def install_delays(seed):
    """Delay injection in the lock hand-over window (between the old lock being taken
    and the new one being published) and at the start of a child's run wrapper."""
    from term_image import utils

    rnd = random.Random(seed)
    real_rlock, real_array = utils.mp_RLock, utils.Array

    def slow_rlock(*a, **k):
        time.sleep(rnd.uniform(0, 0.004))
        lock = real_rlock(*a, **k)
        time.sleep(rnd.uniform(0, 0.004))
        return lock

    def slow_array(*a, **k):
        time.sleep(rnd.uniform(0, 0.002))
        return real_array(*a, **k)

    utils.mp_RLock = slow_rlock
    utils.Array = slow_array


class Unpicklable:
    """An argument that cannot be sent to a spawned process: Process.start() fails."""

    def __reduce__(self):
        import pickle

        time.sleep(0.002)  # other threads get to run while the start is failing
        raise pickle.PicklingError("not for export")


def failing_start():
    """A Process.start() that raises (spawn / forkserver cannot pickle the argument).
    The process never comes to be; the terminal stays serialized all the same."""
    p = multiprocessing.Process(target=child_main, args=(Unpicklable(),))
    try:
        p.start()
    except Exception:
        return True
    p.join(5)
    return False


class RunProcess(multiprocessing.Process):
    """The other documented way to use multiprocessing.Process: a subclass overriding
    run() (instead of passing a target)."""

    def __init__(self, vf_args):
        super().__init__()
        self.vf_args = vf_args

    def run(self):
        child_main(*self.vf_args)


def make_process(cfg, args):
    how = cfg.get("create") or ("subclass" if cfg.get("subclass") else "target")
    if how == "subclass":
        return RunProcess(args)
    if how == "context":
        # a context's own Process class (what multiprocessing.Pool and friends use); not a
        # subclass of multiprocessing.Process
        return multiprocessing.get_context(cfg.get("ctx_method") or cfg["method"]).Process(target=child_main, args=args)
    if how == "relay":
        # a child that never imports the library, which in turn starts the process that does
        from . import c14_relay

        return multiprocessing.Process(target=c14_relay.relay_main, args=args)
    if how == "lazy":
        from . import c14_lazy

        return multiprocessing.Process(target=c14_lazy.lazy_main, args=args)
    return multiprocessing.Process(target=child_main, args=args)


def child_main(cfg, tag, seed, level):
    """Entry point of a child process (started with multiprocessing.Process)."""
    import multiprocessing as mp

    import term_image  # noqa: F401

    if cfg.get("delays"):
        install_delays(seed)
    # A fork()ed child inherits the (thread-level) lock of every @cached wrapper in whatever
    # state it had in the parent at that instant -- possibly held by a thread that does not
    # exist in the child.  That is the generic fork-with-threads hazard, not terminal
    # serialization: fork children therefore do not call the memoized query helpers.
    compound_ok = (cfg.get("ctx_method") or cfg["method"]) != "fork" if cfg.get("create") == "context" else cfg["method"] != "fork"
    expect = cfg.get("expect_procs", 0)
    ths = [threading.Thread(target=hammer, args=("%s.t%d" % (tag, i), cfg["ops"], seed * 31 + i, True, compound_ok, expect)) for i in range(cfg["child_threads"])]
    for t in ths:
        t.start()
    procs = []
    if level < cfg["depth"]:
        for j in range(cfg["grandchildren"]):
            time.sleep(random.Random(seed + j).uniform(0, 0.003))
            p = make_process(cfg, (cfg, "%s.g%d" % (tag, j), seed * 7 + j, level + 1))
            try:
                p.start()
            except Exception as e:
                with open(_log_path(), "a") as f:
                    f.write(json.dumps(["S", os.getpid(), tag, "%s: %s" % (type(e).__name__, e)]) + "\n")
                announce_ready()  # on behalf of the process that never came to be
                continue
            procs.append(p)
    announce_ready()
    hammer(tag, cfg["ops"], seed, True, compound_ok, expect)
    for t in ths:
        t.join()
    for p in procs:
        p.join(20)
    with open(_log_path(), "a") as f:
        f.write(json.dumps(["D", os.getpid(), tag, [p.exitcode for p in procs]]) + "\n")
