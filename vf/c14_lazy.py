"""Process target that does NOT import the library (or anything that does) at module
level: a spawn / forkserver child unpickling this target has not imported term_image by the
time Process.run() is reached; the first import happens inside the target."""


def lazy_main(*args):
    from . import c14_child  # imports term_image only now, in the running child

    return c14_child.child_main(*args)
