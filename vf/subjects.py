"""Instrumented subject renderables (new Renderable API) and synthetic render outputs.

Imported only inside worker processes (after the pty environment is installed).
"""

from __future__ import annotations

import itertools

from term_image.geometry import Size
from term_image.renderable import (
    ArgsNamespace,
    DataNamespace,
    Frame,
    FrameCount,
    FrameDuration,
    Renderable,
    Seek,
)

CSI = "\x1b["


def synth_render(kind, W, H, tag=0):
    """A well-formed render output of W x H cells.  *tag* varies the content."""
    lines = []
    for y in range(H):
        if kind == "text":
            line = "".join(chr(ord("a") + (tag + x + y * 7) % 26) for x in range(W))
        elif kind == "sgr":
            parts = []
            for x in range(W):
                v = (tag * 37 + x * 11 + y * 5) % 256
                parts.append("%s38;2;%d;%d;%dm%s48;2;%d;%d;%dm%s" % (CSI, v, 255 - v, x % 256, CSI, y % 256, v, 7, "▀" if (x + y + tag) % 3 else " "))
            line = "".join(parts) + CSI + "m"
        elif kind == "ech":
            line = "%s%dX%s%dC" % (CSI, W, CSI, W)
        elif kind == "cuf":
            line = "%s%dC" % (CSI, W)
        elif kind == "apc":
            # a graphics-protocol-like line: an APC string carrying data (consumed by the
            # terminal, as the payload of a graphics command is), then the cells are covered
            data = "".join("%02x" % ((tag * 13 + y * 7 + i) % 256) for i in range(24))
            line = "\x1b_Zvf=%d,%d;%s\x1b\\%s%dX%s%dC" % (y, tag, data, CSI, W, CSI, W)
        elif kind == "digits":
            line = "".join(str((tag + x + y) % 10) for x in range(W))
        else:
            raise ValueError(kind)
        lines.append(line)
    return "\n".join(lines)


class Subj(Renderable):
    """Definite or INDEFINITE subject whose output encodes what it was asked for.

    ``log`` records every ``_render_`` call: (frame_offset, seek_whence, size, duration,
    args) -- the observation point for C08/C09/C10.
    """

    def __init__(self, frame_count, duration=7, size=(3, 2), kind="text", indef_len=None, dyn_durations=None):
        super().__init__(frame_count, duration)
        self.size = Size(*size)
        self.kind = kind
        self.indef_len = indef_len  # INDEFINITE: number of frames before StopIteration
        self.dyn = dyn_durations or (3, 5, 8, 13, 21, 34, 55)
        self.log = []
        self.fail_at = None  # (call_index, exception) -- fault injection for C10
        self.calls = 0
        self.fin_log = []
        self.size_fail = None
        self.stream_pos = 0  # INDEFINITE stream position (frames consumed)
        self.on_render = None  # optional callback invoked inside _render_

    def _get_render_size_(self):
        if self.size_fail:
            raise self.size_fail
        return self.size

    def _get_render_data_(self, *, iteration):
        rd = super()._get_render_data_(iteration=iteration)
        tok = next(_tokens)
        rd[Subj].update(token=tok, fin=0, pos=0)
        if hold_refs:
            held.append(rd)
        created.append(tok)
        return rd

    @classmethod
    def _finalize_render_data_(cls, render_data):
        d = render_data[Subj]
        d.fin += 1
        finalized.append(d.token)
        if on_finalize is not None:
            on_finalize()  # (a renderable releasing a resource: a system-call boundary)
        super()._finalize_render_data_(render_data)

    def _render_(self, render_data, render_args):
        data = render_data[Renderable]
        self.calls += 1
        if render_data.finalized:
            used_after_finalize.append(render_data[Subj].token)
        self.log.append((data.frame_offset, int(data.seek_whence), tuple(data.size), data.duration if self.animated else None, render_args[Subj].tag))
        if self.on_render is not None:
            was = render_data.finalized
            self.on_render()
            if render_data.finalized and not was:
                # finalized underneath the render that is using it
                used_after_finalize.append(render_data[Subj].token)
        if self.fail_at and self.fail_at[0] == self.calls:
            raise self.fail_at[1]
        if self._frame_count is FrameCount.INDEFINITE and data.iteration:
            sub = render_data[Subj]
            off, wh = data.frame_offset, data.seek_whence
            if wh is Seek.START:
                pos = off
            elif wh is Seek.CURRENT:
                pos = sub.pos + off
            else:
                pos = self.indef_len - 1 + off
            pos = max(pos, 0)
            if pos >= self.indef_len:
                raise StopIteration
            sub.pos = pos + 1
            number = pos
        else:
            number = data.frame_offset
        if self.animated:
            duration = self.dyn[number % len(self.dyn)] if data.duration is FrameDuration.DYNAMIC else data.duration
        else:
            duration = 1
        W, H = data.size
        out = synth_render(self.kind, W, H, number * 3 + render_args[Subj].tag)
        return Frame(number, duration, data.size, out)


class SubjArgs(ArgsNamespace, render_cls=Subj):
    tag: int = 0


class _SubjData(DataNamespace, render_cls=Subj):
    token: int
    fin: int
    pos: int


_tokens = itertools.count(1)
hold_refs = False
held = []
live_tokens = {}
created = []
finalized = []
on_finalize = None  # callable run by Subj's finalizer hook (C13)
used_after_finalize = []


def reset_tokens():
    del created[:], finalized[:], used_after_finalize[:], SubjDeep.deep_finalized[:]


class SubjDeep(Subj):
    """A render class two levels below Renderable, with render data of its own and a
    finalizer hook that chains to its parent's (as documented): one finalization of a data
    object = each hook once."""

    deep_finalized = []

    def _get_render_data_(self, *, iteration):
        rd = super()._get_render_data_(iteration=iteration)
        rd[SubjDeep].update(handle=rd[Subj].token)
        return rd

    @classmethod
    def _finalize_render_data_(cls, render_data):
        cls.deep_finalized.append(render_data[SubjDeep].handle)
        super()._finalize_render_data_(render_data)


class SubjDeepData(DataNamespace, render_cls=SubjDeep):
    handle: int


class SubjChild(Subj):
    """A subclass with its own args namespace (for compatible/incompatible args)."""


class SubjChildArgs(ArgsNamespace, render_cls=SubjChild):
    extra: str = "x"


class Other(Renderable):
    def __init__(self):
        super().__init__(1, 1)

    def _get_render_size_(self):
        return Size(1, 1)

    def _render_(self, render_data, render_args):
        return Frame(0, 1, Size(1, 1), " ")


class OtherArgs(ArgsNamespace, render_cls=Other):
    foo: int = 0


class SubjSGR(Subj):
    """A subject that follows the documented extension contract for renderables whose
    output uses SGR sequences: on an interrupted write it resets the attributes."""

    def _handle_interrupted_draw_(self, render_data, render_args, output):
        output.write("\x1b[0m")
        output.flush()


class SubjAPC(Subj):
    """A subject whose output consists of string-type control sequences (like the graphics
    protocols): its interruption handler ends a possibly unterminated string (twice, as the
    library's own graphics styles do) and resets the attributes."""

    def _handle_interrupted_draw_(self, render_data, render_args, output):
        output.write("\x1b\\\x1b\\\x1b[0m")
        output.flush()

    def _clear_frame_(self, render_data, render_args, cursor_x, output):
        # like a graphics style deleting the previous frame's image: one more string-type
        # command, written between two frames
        output.write("\x1b_Zvf=clear,x=%d;0123456789abcdef\x1b\\" % cursor_x)
        output.flush()


class SubjSGRArgs(ArgsNamespace, render_cls=SubjSGR):
    unused: int = 0
