"""Strict tokenizers for the graphics protocols, written from the protocol documents
(kitty: https://sw.kovidgoyal.net/kitty/graphics-protocol/ ; iTerm2:
https://iterm2.com/documentation-images.html).  Independent of the library."""

from __future__ import annotations

import base64
import binascii
import re
import zlib

_KITTY = re.compile(r"\x1b_G([^;\x1b]*);([^\x1b]*)\x1b\\")
_ITERM = re.compile(r"\x1b\]1337;File=([^:\x1b\x07]*):([^\x1b\x07]*)\x1b\\")
_B64 = re.compile(r"[A-Za-z0-9+/]*={0,2}")


class ProtocolError(Exception):
    def __init__(self, kind, detail=""):
        super().__init__(kind, detail)
        self.kind, self.detail = kind, detail


def parse_kitty(out):
    """-> (items, residue) where items is a list of
    ("delete", keys) | ("image", keys, data bytes, [chunk lengths]).
    Raises ProtocolError on any framing defect."""
    items = []
    cur = None
    pos = 0
    residue = []
    for m in _KITTY.finditer(out):
        residue.append(out[pos : m.start()])
        pos = m.end()
        keys = {}
        for kv in m.group(1).split(","):
            k, eq, v = kv.partition("=")
            if not eq or not k or not v or k in keys:
                raise ProtocolError("bad control data", m.group(1)[:80])
            keys[k] = v
        payload = m.group(2)
        if not _B64.fullmatch(payload):
            raise ProtocolError("payload not base64", payload[:40])
        if len(payload) > 4096:
            raise ProtocolError("chunk longer than 4096", len(payload))
        if keys.get("a") == "d":
            if cur is not None:
                raise ProtocolError("delete inside a chunked transmission")
            if payload:
                raise ProtocolError("delete with payload")
            items.append(("delete", keys))
            continue
        if cur is None:
            for need in ("a", "f", "s", "v"):
                if need not in keys:
                    raise ProtocolError("first chunk lacks control key", need)
            cur = [keys, [payload]]
        else:
            if set(keys) - {"m"}:
                raise ProtocolError("continuation chunk carries control keys", sorted(keys))
            cur[1].append(payload)
        more = keys.get("m", "0")
        if more == "1":
            if len(payload) % 4 or not payload:
                raise ProtocolError("non-final chunk not a non-empty multiple of 4", len(payload))
        elif more == "0":
            k0, chunks = cur
            cur = None
            try:
                data = base64.b64decode("".join(chunks), validate=True)
            except (binascii.Error, ValueError) as e:
                raise ProtocolError("payload does not decode", str(e))
            if k0.get("o") == "z":
                try:
                    data = zlib.decompress(data)
                except zlib.error as e:
                    raise ProtocolError("payload does not inflate", str(e))
            elif "o" in k0:
                raise ProtocolError("unknown compression", k0["o"])
            items.append(("image", k0, data, [len(c) for c in chunks]))
        else:
            raise ProtocolError("bad m value", more)
    residue.append(out[pos:])
    if cur is not None:
        raise ProtocolError("unterminated chunk sequence")
    rest = "".join(residue)
    if "\x1b_" in rest or "\x1b\\" in rest:
        raise ProtocolError("malformed graphics command", rest[:60])
    return items, rest


def parse_iterm2(out):
    """-> (list of (keys, data bytes), residue)."""
    items = []
    pos = 0
    residue = []
    for m in _ITERM.finditer(out):
        residue.append(out[pos : m.start()])
        pos = m.end()
        keys = {}
        for kv in m.group(1).split(";"):
            k, eq, v = kv.partition("=")
            if not eq or not k or k in keys:
                raise ProtocolError("bad iterm2 keys", m.group(1)[:80])
            keys[k] = v
        payload = m.group(2)
        try:
            data = base64.b64decode(payload, validate=True)
        except (binascii.Error, ValueError) as e:
            raise ProtocolError("iterm2 payload does not decode", str(e))
        items.append((keys, data))
    residue.append(out[pos:])
    rest = "".join(residue)
    if "\x1b]" in rest or "\x1b\\" in rest or "\x07" in rest:
        raise ProtocolError("malformed iterm2 command", rest[:60])
    return items, rest


_RESIDUE = re.compile(r"(?:\x1b\[\d+X|\x1b\[\d+C|\x1b\[\d+A|\n)*")


def residue_ok(rest):
    return bool(_RESIDUE.fullmatch(rest))
