"""Oracles shared by several checks (all built on VTerm)."""

from __future__ import annotations

from .vterm import SENT, VTerm


def check_rect(out, W, H, rows, cols, r0, c0, personality, *, require_cover=True, keep_payload=False):
    """C01 oracle: executing *out* with the cursor at (r0, c0) changes exactly the
    W x H rectangle anchored there.  Returns (errors, vterm)."""
    vt = VTerm(rows, cols, personality, cooked=True, margin=c0, keep_payload=keep_payload)
    vt.r, vt.c = r0, c0
    errs = []
    nl = out.count("\n")
    if nl != H - 1:
        errs.append(("newline-count", nl, H - 1))
    if out.endswith("\n"):
        errs.append(("trailing-newline",))
    vt.feed(out)
    rect = {(r, c) for r in range(r0, r0 + H) for c in range(c0, c0 + W)}
    outside = vt.touched - rect
    if outside:
        errs.append(("touched-outside", sorted(outside)[:4]))
    if require_cover:
        missing = rect - vt.touched
        if missing:
            errs.append(("uncovered", sorted(missing)[:4]))
    grid = vt.grid
    for r in range(rows):
        row = grid[r]
        for c in range(cols):
            if row[c] is not SENT and row[c] != SENT and (r, c) not in rect:
                errs.append(("changed-outside", r, c, row[c]))
                break
        else:
            continue
        break
    if vt.scrolls:
        errs.append(("scrolled", vt.scrolls))
    if vt.autowraps:
        errs.append(("autowrap", vt.autowraps))
    exp = (r0 + H - 1, min(c0 + W, cols - 1))
    if (vt.r, vt.c) != exp:
        errs.append(("cursor", (vt.r, vt.c), exp))
    if not vt.sgr_default():
        errs.append(("sgr-not-reset", vt.fg, vt.bg, vt.attr))
    for a in vt.anomalies():
        errs.append(a)
    if not vt.visible:
        errs.append(("cursor-hidden",))
    return errs, vt
