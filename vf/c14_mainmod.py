"""Stand-alone program for one C14 scenario (run as ``python -m vf.c14_mainmod DIR METHOD``
under the run's pty): an application whose main script makes a synchronized call at module
level -- outside the ``if __name__ == "__main__"`` guard, e.g. set-up code that asks the
terminal something.  With spawn / forkserver every child re-imports the main script before
it is handed anything by its parent, so that call is executed in each child as well."""

import json
import multiprocessing
import os
import sys
import threading
import time

from term_image import utils

DIR = os.environ["VF_C14_MAINMOD_DIR"]


@utils.lock_tty
def probe(tag, hold):
    t0 = time.monotonic_ns()
    time.sleep(hold)
    t1 = time.monotonic_ns()
    with open(os.path.join(DIR, "log-%d.jsonl" % os.getpid()), "a") as f:
        f.write(json.dumps(["I", os.getpid(), threading.get_ident(), tag, 0, t0, t1]) + "\n")


# the module-level call (parent: at start-up; children: when the main script is re-imported)
probe("module-level:" + __name__, 0.15)


def child():
    probe("child-target", 0.001)


if __name__ == "__main__":
    multiprocessing.set_start_method(sys.argv[1])
    stop = threading.Event()

    def hammer(i):
        while not stop.is_set():
            probe("parent.t%d" % i, 0.002)
            time.sleep(0.0005)

    ths = [threading.Thread(target=hammer, args=(i,), daemon=True) for i in range(3)]
    for t in ths:
        t.start()
    procs = []
    for _ in range(3):
        p = multiprocessing.Process(target=child)
        p.start()
        procs.append(p)
        time.sleep(0.05)
    for p in procs:
        p.join(30)
    stop.set()
    for t in ths:
        t.join(5)
