"""Reference recogniser/interpreter of render format specifiers.

Hand-written recursive descent over the documented grammar (docs/source/guide/
formatting.rst, "Render Format Specification", and the "Format Specification" sections
of the KittyImage / ITerm2Image class docs) -- deliberately not a regular expression:

    [ <h_align> ] [ <width> ] [ . [ <v_align> ] [ <height> ] ] [ # [ <threshold> | <bgcolor> ] ] [ + <style> ]

* "if the . is present, then at least one of v_align and height must be present"
* width/height: integers (ASCII digits); absent width = 0 (terminal width), absent
  height = -2 (terminal height minus two); the explicit value is passed on as given
  (``draw()``: non-positive = relative, max(terminal_dimension + d, 1)).
* threshold: '.' followed by at least one digit; bgcolor: '#' or 6 hex digits;
  '#' alone disables transparency.
* style (after '+', non-empty): kitty ``[L|W] [z<int>] [m0|m1] [c0-9]``,
  iterm2 ``[L|W|A] [m0|m1] [c0-9]``, in this order; block defines none.
  z-index must be in the signed 32-bit range excluding -(2**31).

parse() returns ("ok", interpretation) or ("general", reason) / ("style", reason) /
("both", reason) telling which documented error applies (ValueError for the general
grammar, StyleError for the style part; "both"/"style-value" accept either).
"""

DIGITS = "0123456789"
HEX = "0123456789abcdefABCDEF"
DEFAULT_THRESHOLD = 40 / 255


def _digits(s, i):
    j = i
    while j < len(s) and s[j] in DIGITS:
        j += 1
    return s[i:j], j


def parse_style(style, text):
    """-> (ok, dict | reason, kind) kind in {"style", "style-value"}"""
    args = {}
    i, n = 0, len(text)
    if style == "block":
        return (False, "block defines no style-specific fields", "style") if text else (True, {}, None)
    methods = {"kitty": {"L": "lines", "W": "whole"}, "iterm2": {"L": "lines", "W": "whole", "A": "anim"}}[style]
    if i < n and text[i] in methods:
        args["method"] = methods[text[i]]
        i += 1
    if style == "kitty" and i < n and text[i] == "z":
        j = i + 1
        if j < n and text[j] == "-":
            j += 1
        num, k = _digits(text, j)
        if not num:
            return False, "z without a number", "style"
        args["z_index"] = int(text[i + 1 : k])
        i = k
    if i < n and text[i] == "m":
        if i + 1 < n and text[i + 1] in "01":
            args["mix"] = text[i + 1] == "1"
            i += 2
        else:
            return False, "m without 0/1", "style"
    if i < n and text[i] == "c":
        if i + 1 < n and text[i + 1] in DIGITS:
            args["compress"] = int(text[i + 1])
            i += 2
        else:
            return False, "c without a digit", "style"
    if i < n:
        return False, "unexpected %r in style part" % text[i:], "style"
    if "z_index" in args and not -(2**31) < args["z_index"] < 2**31:
        return False, "z-index out of range", "style-value"
    return True, args, None


def parse(spec, style):
    s, n, i = spec, len(spec), 0
    h_align = width = v_align = height = None
    alpha = DEFAULT_THRESHOLD
    general_error = None

    if i < n and s[i] in "<|>":
        h_align = s[i]
        i += 1
    w, i = _digits(s, i)
    if w:
        width = int(w)
    if i < n and s[i] == ".":
        i += 1
        if i < n and s[i] in "^-_":
            v_align = s[i]
            i += 1
        h, i = _digits(s, i)
        if h:
            height = int(h)
        if v_align is None and height is None:
            general_error = "dot without v_align or height"
    if general_error is None and i < n and s[i] == "#":
        i += 1
        if i < n and s[i] == ".":
            d, j = _digits(s, i + 1)
            if not d:
                general_error = "threshold without digits"
            else:
                alpha = float(s[i:j])
                i = j
        elif i < n and s[i] == "#":
            alpha = "#"
            i += 1
        elif i + 6 <= n and all(ch in HEX for ch in s[i : i + 6]):
            alpha = "#" + s[i : i + 6]
            i += 6
        else:
            alpha = None
    style_text = None
    if general_error is None and i < n and s[i] == "+":
        style_text = s[i + 1 :]
        if not style_text or "\n" in style_text:
            general_error = "empty style part"
        i = n
    if general_error is None and i < n:
        general_error = "unexpected %r" % s[i:]

    if general_error is not None:
        # is the style part (whatever follows the first '+') also bad?  Then either
        # documented error class is acceptable.
        plus = s.find("+")
        if plus != -1 and plus + 1 < n:
            ok, _, _ = parse_style(style, s[plus + 1 :])
            if not ok:
                return "both", general_error
        return "general", general_error

    sargs = {}
    if style_text is not None:
        ok, val, kind = parse_style(style, style_text)
        if not ok:
            return kind, val
        sargs = val
    return "ok", dict(
        h_align=h_align,
        pad_width=0 if width is None else width,
        v_align=v_align,
        pad_height=-2 if height is None else height,
        alpha=alpha,
        style=sargs,
    )
