"""Reference model of ``RenderIterator`` -- written from its class docstring, the
docstrings of ``seek`` / ``set_*`` / ``close`` / ``loop`` and the ``[#ri-nf]`` footnote:

* iteration starts at frame 0; frames 0..n-1 are yielded ``loops`` times (negative =
  for ever); ``loop`` starts at ``loops``, decreases by one upon rendering the first
  frame of every loop after the first and ends at zero after exhaustion;
* "next frame" = first frame / the frame after the last rendered one / the frame set by
  the latest seek -- after the last frame of a loop that is the first frame of the next
  loop (only after the last frame of the *last* loop is there none: ``frame_count``);
* seek: START 0 <= off < n; CURRENT -next <= off < n - next; END -n < off <= 0; anything
  else is a ValueError that changes nothing; a seek does not consume a loop;
* INDEFINITE: loops = 1, no caching; START needs off >= 0, END needs off <= 0, CURRENT
  anything; only the last seek before a render is handed to the renderable, once, and
  then (0, CURRENT); StopIteration from the renderable ends iteration (loop = 0);
* every ``set_*`` applies from the next rendered frame; after exhaustion / close() /
  an error: next() stops and control operations raise FinalizedIteratorError.

The model is about numbers, durations, sizes and hand-overs; what a frame looks like
is delegated to a callback so that the same model serves any subject.
"""

START, CURRENT, END = 0, 1, 2
DYNAMIC = "DYNAMIC"


class IterModel:
    def __init__(self, n, loops, indef_len=None):
        self.indef = indef_len is not None
        self.n = n
        self.indef_len = indef_len
        self.loop = 1 if self.indef else loops
        self.next = 0
        self.closed = False
        self.pending = None  # INDEFINITE: last un-consumed seek
        self.first = True
        self.pos = 0  # INDEFINITE stream position
        self.handed = None  # what the renderable must have been handed at the last render

    # each op returns ("ok",) | ("err", kind) | ("stop",) | ("frame", number)
    def do_next(self):
        if self.closed:
            return ("stop",)
        if self.indef:
            if self.pending is not None:
                off, wh = self.pending
                self.handed = [(off, wh)]
            else:
                off, wh = 0, CURRENT
                # the very first render may also be announced as (0, START): same frame
                self.handed = [(0, CURRENT), (0, START)] if self.first else [(0, CURRENT)]
            self.first = False
            self.pending = None
            pos = off if wh == START else (self.pos + off if wh == CURRENT else self.indef_len - 1 + off)
            pos = max(pos, 0)
            if pos >= self.indef_len:
                self.loop = 0
                self.closed = True
                return ("stop",)
            self.pos = pos + 1
            return ("frame", pos)
        if self.next >= self.n:
            if self.loop > 0:
                self.loop -= 1
            if self.loop == 0:
                self.closed = True
                return ("stop",)
            self.next = 0
        no = self.next
        self.next += 1
        return ("frame", no)

    def do_seek(self, off, wh):
        if self.closed:
            return ("err", "FinalizedIteratorError")
        if self.indef:
            if (wh == START and off < 0) or (wh == END and off > 0):
                return ("err", "ValueError")
            self.pending = (off, wh)
            return ("ok",)
        nxt = self.next
        if nxt >= self.n and self.loop != 1:
            nxt = 0  # between two loops: the frame to be rendered next is the first one
        f = off if wh == START else (nxt + off if wh == CURRENT else self.n + off - 1)
        if not 0 <= f < self.n:
            return ("err", "ValueError")
        self.next = f
        return ("ok",)

    def do_setting(self, valid=True, err="ValueError"):
        if self.closed:
            return ("err", "FinalizedIteratorError")
        if not valid:
            return ("err", err)
        return ("ok",)

    def do_close(self):
        self.closed = True
        return ("ok",)
