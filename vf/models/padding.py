"""Reference model of padding geometry, written from the docstrings of
``term_image.padding`` and of ``BaseImage.draw`` / the format-spec documentation.

* AlignedPadding: "padded_dimension = max(render_dimension, absolute_minimum_dimension)";
  non-positive minimum = relative: "max(terminal_dimension + relative_dimension, 1)".
* ExactPadding: "Pads a render output on each side by the specified amount".
* Alignment: LEFT/TOP put all the padding after the render, RIGHT/BOTTOM before it,
  CENTER/MIDDLE split it; which side gets the odd cell is not specified -> both accepted.
"""


def absolute(dim, term_dim):
    return dim if dim > 0 else max(term_dim + dim, 1)


def aligned_box(render, minimum, term):
    """-> (padded_w, padded_h) for absolute-or-relative minimum size."""
    mw, mh = absolute(minimum[0], term[0]), absolute(minimum[1], term[1])
    return max(render[0], mw), max(render[1], mh)


def side_ok(align, before, after):
    """align in {0: start, 1: centre, 2: end}; before/after = padding on each side."""
    if align == 0:
        return before == 0
    if align == 2:
        return after == 0
    return abs(before - after) <= 1
