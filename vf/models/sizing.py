"""Reference oracle for automatic sizing, in exact rational arithmetic.

Written from the documentation (glossary: automatic sizing, frame size, cell ratio;
``Size`` enum docs; ``BaseImage.set_size``):

* frame dimension: positive = absolute, non-positive = max(terminal + d, 1)
* text-based styles: one cell = 1 x 2 pixels, pixel ratio = 2 * cell ratio;
  graphics-based styles: one cell = cell-size pixels, pixel ratio = 1
* FIT: fit optimally within the frame (never exceeds it, touches it on >= 1 axis,
  aspect preserved); FIT_TO_WIDTH: width exactly the frame width; ORIGINAL: as many
  pixels as the source (scaled for the pixel ratio); AUTO: ORIGINAL if it fits the
  frame else FIT; width=int / height=int: kept exactly, other dimension proportional.
* every free dimension is within one cell of the exact real value, never below 1.

The AUTO decision is three-valued within +-0.5 px of the frame (whole-pixel rounding
of the scaled source height is inherent in "fits").
"""

from fractions import Fraction as F


def absolute(d, term):
    return d if d > 0 else max(term + d, 1)


def near(got, exact):
    return abs(F(got) - exact) < 1 or (got == 1 and exact < 1)


def positive_ints(sz):
    return (
        isinstance(sz, tuple)
        and len(sz) == 2
        and all(type(v) is int and v >= 1 for v in sz)
    )


def geometry(family, cell, ratio):
    """-> (px per cell w, px per cell h, pixel ratio) for the style family."""
    if family == "text":
        return 1, 2, 2 * F(ratio)
    cw, ch = cell or (1, 2)
    return cw, ch, F(1)


def exact_fit(ori, frame_cells, geo):
    pw, ph, pr = geo
    ow, oh = ori
    fw, fh = frame_cells[0] * pw, frame_cells[1] * ph
    s = min(F(fw, ow), F(fh) / (oh * pr))
    return ow * s / pw, oh * pr * s / ph


def judge(mode, value, result, ori, frame_cells, geo, others=None):
    """mode in FIT/AUTO/ORIGINAL/FIT_TO_WIDTH/width/height.  *others*: dict with the
    library's own FIT and ORIGINAL results (needed for AUTO).  -> (errors, class)"""
    pw, ph, pr = geo
    ow, oh = ori
    fcols, flines = frame_cells
    fw, fh = fcols * pw, flines * ph
    errs = []
    cls = mode
    if not positive_ints(result):
        return [("not-positive-ints", result)], cls
    W, H = result
    if mode == "width":
        if W != value:
            errs.append(("given-width-not-kept", W, value))
        exact = F(value * pw, ow) * oh * pr / ph
        if not near(H, exact):
            errs.append(("free-height-off", H, float(exact)))
        cls += ":clamp1" if exact < 1 else ""
    elif mode == "height":
        if H != value:
            errs.append(("given-height-not-kept", H, value))
        exact = F(value * ph, oh) * ow / pr / pw
        if not near(W, exact):
            errs.append(("free-width-off", W, float(exact)))
        cls += ":clamp1" if exact < 1 else ""
    elif mode == "FIT":
        Wex, Hex = exact_fit(ori, frame_cells, geo)
        if W > fcols or H > flines:
            errs.append(("fit-exceeds-frame", result, frame_cells))
        if W != fcols and H != flines:
            errs.append(("fit-touches-neither-axis", result, frame_cells))
        if not near(W, Wex) or not near(H, Hex):
            errs.append(("fit-aspect-off", result, float(Wex), float(Hex)))
        cls += ":w" if W == fcols else ":h"
        cls += ":clamp1" if min(Wex, Hex) < 1 else ""
    elif mode == "ORIGINAL":
        if not near(W, F(ow, pw)) or not near(H, oh * pr / ph):
            errs.append(("original-off", result, float(F(ow, pw)), float(oh * pr / ph)))
    elif mode == "FIT_TO_WIDTH":
        if W != fcols:
            errs.append(("ftw-width", W, fcols))
        exact = F(fw, ow) * oh * pr / ph
        if not near(H, exact):
            errs.append(("ftw-height-off", H, float(exact)))
    elif mode == "AUTO":
        fit, orig = others["FIT"], others["ORIGINAL"]
        hx = oh * pr
        # (the half pixel is itself a rounding point: the library works in floats, the
        # model in the exact rational value of those floats -- 5 * 0.9 is 4.5 in one and
        # 4.5000000000000001 in the other; a millionth of a pixel absorbs that)
        eps = F(1, 10**6)
        fits_sure = ow <= fw and hx <= fh - F(1, 2) - eps
        nofit_sure = ow > fw or hx > fh + F(1, 2) + eps
        if result not in (fit, orig):
            errs.append(("auto-neither-fit-nor-original", result, fit, orig))
        if fits_sure and result != orig:
            errs.append(("auto-should-be-original", result, orig))
        if nofit_sure and result != fit:
            errs.append(("auto-should-be-fit", result, fit))
        if W > fcols or H > flines:
            errs.append(("auto-exceeds-frame", result, frame_cells))
        cls += ":original" if result == orig else ":fit"
    return errs, cls
