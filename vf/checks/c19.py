"""C19 -- format specifiers are accepted and interpreted exactly as documented."""

from __future__ import annotations

import itertools
import random
import traceback

from ..common import Result
from ..models import fmtspec
from ..vterm import VTerm

ID = "C19"
LEVEL = "exploration"
NEEDS_PTY = True
ALPHABET = "<|>019.-^_#afF+LWAzmc"
MAXLEN = {"quick": 4, "thorough": 5}
RANDOM = {"quick": 3000, "thorough": 120000}
EXHAUSTIVE = {"quick": True, "thorough": True}
EXHAUSTIVE_NOTE = (
    "exhaustive over ALL strings of length <= 4 (quick) / <= 5 (thorough) over the 21-symbol alphabet "
    + ALPHABET
    + " for each of the three render styles; the random sentences/near-sentences part is sampling"
)
RULE = (
    "every string of length <= bound over the 21-symbol alphabet x {block, kitty, iterm2}, plus random grammar "
    "sentences and one-edit near-sentences up to length 30 (10-digit z-indexes at the int32 limits, long "
    "thresholds, colours with style parts); each is judged against the hand-written recursive-descent "
    "recogniser (accept/reject, error class, no side effect) and, when accepted, format(image, spec) is compared "
    "with the draw()-pipeline called with the parameters the reference interpreter derives (and, for a sample, "
    "with a real draw() on the pty); distinct = distinct (style, string) pairs (shards are disjoint)"
)
ASSUMPTIONS = [
    "reference grammar: vf/models/fmtspec.py, written from docs/source/guide/formatting.rst and the class docs",
    "a string invalid for two reasons (general grammar and style part) may raise either documented error; an "
    "out-of-range z-index may raise ValueError or StyleError",
    "an explicit width/height of 0 is passed on as 0 (terminal-relative with offset 0), an absent height is -2",
    "thresholds whose decimal expansion rounds to 1.0 are not compared through draw() (which rejects 1.0)",
]
SHARDS = 16
MIN_EVENTS = {"accepted specs compared with explicit parameters": {"quick": 3000, "thorough": 30000}}


def plan(tier, seed):
    # identities rotate so that identity-dependent style arguments (iterm2 'm' only matters
    # on wezterm) are observable in the output
    return [
        dict(persona=("wezterm", "konsole", "other", "kitty-0.32")[i % 4], persona_kw=dict(bg=[10, 200, 30]), seed=seed, index=i, n=SHARDS, tier=tier, winsize=[12, 6, 96, 96])
        for i in range(SHARDS)
    ]


def all_strings(maxlen, index, n):
    k = 0
    for L in range(maxlen + 1):
        for tup in itertools.product(ALPHABET, repeat=L):
            if k % n == index:
                yield "".join(tup)
            k += 1


def gen_sentence(rnd, style):
    if rnd.random() < 0.05:
        # the one place where the grammar needs a look-behind: a dot must be followed by a
        # v_align or a height -- whatever else comes next
        tail = rnd.choice(["", "#", "##", "#.5", "#%06X" % rnd.getrandbits(24), "#%06x" % rnd.getrandbits(24), "#aBcDeF", "#FFFFFF", "+L", "+W", "+z1", "+m1", "#00FF00+L", " "])
        return rnd.choice(["", "<", "|", ">"]) + rnd.choice(["", "0", "7", "12"]) + "." + tail
    if rnd.random() < 0.04:
        # a colour field with one character that is next to the hexadecimal digits in the
        # character table, or a letter of the specifier alphabet itself
        col = list("%06x" % rnd.getrandbits(24))
        col[rnd.randrange(6)] = rnd.choice("GgZz[\\]^_`@/:LWAzmc.-+ ")
        return rnd.choice(["", "<", "|10", ">5.^3", ".-4"]) + "#" + "".join(col) + rnd.choice(["", "", "+L", "+W", "+m1"])
    parts = []
    if rnd.random() < 0.5:
        parts.append(rnd.choice("<|>"))
    if rnd.random() < 0.5:
        parts.append(str(rnd.choice([0, 1, 5, 12, 13, rnd.randint(0, 40)])) if rnd.random() < 0.9 else "007")
    if rnd.random() < 0.5:
        v = rnd.choice(["", "^", "-", "_"])
        h = rnd.choice(["", "0", "1", "4", "5", str(rnd.randint(0, 12)), "03"])
        if v or h or rnd.random() < 0.1:
            parts.append("." + v + h)
    if rnd.random() < 0.6:
        parts.append(
            "#"
            + rnd.choice(
                [
                    "",
                    "#",
                    ".0",
                    ".5",
                    ".999",
                    ".%d" % rnd.randint(0, 10**rnd.randint(1, 12)),
                    ".99999999999999999999",
                    "%06x" % rnd.getrandbits(24),
                    "%06X" % rnd.getrandbits(24),
                    "abcdeF",
                    "12345",
                ]
            )
        )
    if rnd.random() < 0.7:
        sp = []
        if rnd.random() < 0.6:
            sp.append(rnd.choice("LWA" if style != "kitty" or rnd.random() < 0.2 else "LW"))
        if rnd.random() < 0.5:
            z = str(rnd.choice([0, 1, -1, 2**31 - 1, -(2**31) + 1, -(2**31), 2**31, 2**32, rnd.randint(-(2**33), 2**33), 10**11 - 1, -(10**11)]))
            if rnd.random() < 0.25:
                # a numeral may be as long as one likes: leading zeros do not change its value
                z = z[: z.startswith("-")] + "0" * rnd.randint(1, 18) + z.lstrip("-")
            sp.append("z" + z)
        if rnd.random() < 0.5:
            sp.append("m" + rnd.choice("011 2"[0:3]))
        if rnd.random() < 0.5:
            sp.append("c" + rnd.choice("0123456789"))
        if rnd.random() < 0.1:
            rnd.shuffle(sp)
        if sp or rnd.random() < 0.2:
            parts.append("+" + "".join(sp))
    s = "".join(parts)
    if rnd.random() < 0.5 and s:
        # one edit
        i = rnd.randrange(len(s) + 1)
        op = rnd.random()
        # (non-ASCII decimal digits are digits for str.isdigit() / int() / an un-flagged \d,
        # but not for the documented grammar)
        ch = rnd.choice(ALPHABET + "23456789bcdeE ,;x\n\t" + "\u0663\uff13\u0969")
        if op < 0.33:
            s = s[:i] + ch + s[i:]
        elif op < 0.66 and i < len(s):
            s = s[:i] + s[i + 1 :]
        elif i < len(s):
            s = s[:i] + ch + s[i + 1 :]
    if rnd.random() < 0.06:
        # white space around a sentence is not part of the grammar (a line read from a
        # file and not stripped, say)
        s = rnd.choice([s + "\n", s + " ", "\n" + s, s + "\r\n", s + "\n\n"])
    return s


class State:
    pass


def snapshot(images):
    from term_image.image import BlockImage, ITerm2Image, KittyImage
    from term_image.image.iterm2 import ITerm2ImageMeta

    snap = []
    for im in images.values():
        snap.append(sorted((k, repr(v)) for k, v in vars(im).items() if k != "_source"))
    for cls in (BlockImage, KittyImage, ITerm2Image, ITerm2ImageMeta):
        snap.append(sorted((k, repr(v)) for k, v in vars(cls).items() if not callable(v) and not k.startswith("__") and not isinstance(v, (classmethod, staticmethod, property))))
    return snap


def check_one(spec, style, st, res, env, via_draw=False):
    from term_image.exceptions import StyleError

    image = st.images[style]
    verdict, info = fmtspec.parse(spec, style)
    if verdict == "ok" and max(info["pad_width"], info["pad_height"]) > 200000:
        # formatting would have to build gigabytes of padding: a resource limit, not a verdict
        res.count("accepted specs with absurd padding sizes (resource limit, not judged)")
        return
    before = st.snap
    try:
        out = format(image, spec)
        got = "ok"
    except StyleError as e:
        got, out = "StyleError", None
    except ValueError as e:
        got, out = "ValueError", None
    except Exception as e:
        got, out = type(e).__name__, None
    res.count("specs judged")
    if verdict == "ok":
        res.count("accepted by the reference grammar")
        if got in ("MemoryError", "OverflowError") and max(info["pad_width"], info["pad_height"]) > 100000:
            res.count("accepted specs with absurd padding sizes (resource limit, not judged)")
            return
        if got != "ok":
            res.violation("C19:rejected-valid:%s" % style, "%s spec %r is a sentence of the grammar but raised %s" % (style, spec, got), dict(spec=spec, style=style))
            return
        p = info
        alpha = p["alpha"]
        if isinstance(alpha, float) and alpha >= 1.0:
            res.count("threshold rounding to 1.0 (not compared)")
            return
        sargs = image._check_style_args(dict(p["style"]))
        fmt = image._check_formatting(p["h_align"], p["pad_width"], p["v_align"], p["pad_height"])
        exp = image._format_render(image._renderer(image._render_image, alpha, **sargs), *fmt)
        res.count("accepted specs compared with explicit parameters")
        if out != exp:
            res.violation("C19:interpretation:%s" % style, "%s spec %r: output differs from the render with explicit parameters %r" % (style, spec, p), dict(spec=spec, style=style))
            return
        if via_draw and p["pad_width"] <= env.cols:
            # a real draw() with the equivalent explicit parameters, compared as screens
            env.take()
            try:
                image.draw(p["h_align"], p["pad_width"], p["v_align"], p["pad_height"], alpha, scroll=True, check_size=False, **p["style"])
            except Exception as e:
                res.violation("C19:draw-rejects:%s" % style, "%s spec %r accepted by format() but draw(%r) raised %s: %s" % (style, spec, p, type(e).__name__, e), dict(spec=spec, style=style))
                return
            data = env.take().decode("utf-8", "replace")
            W = max(len(l) for l in exp.split("\n")) + 4
            rows = exp.count("\n") + 3
            from ..env import vt_personality

            pers = vt_personality(env.persona_name)
            a = VTerm(rows, max(W, env.cols) + 2, pers, cooked=False)
            a.feed(data)
            b = VTerm(rows, max(W, env.cols) + 2, pers, cooked=True)
            b.feed(exp)
            res.count("accepted specs compared through a real draw()")
            if a.grid != b.grid or a.placement_keys() != b.placement_keys() or sorted(v[:3] for v in a.images.values()) != sorted(v[:3] for v in b.images.values()):
                res.violation("C19:draw-differs:%s" % style, "%s spec %r: draw(%r) shows something else than format()" % (style, spec, p), dict(spec=spec, style=style, via_draw=True))
    else:
        res.count("rejected by the reference grammar")
        allowed = {"general": {"ValueError"}, "style": {"StyleError"}, "both": {"ValueError", "StyleError"}, "style-value": {"ValueError", "StyleError"}}[verdict]
        if got == "ok":
            res.violation("C19:accepted-invalid:%s" % style, "%s spec %r accepted, but: %s" % (style, spec, info), dict(spec=spec, style=style))
        elif got not in allowed:
            res.violation("C19:wrong-error:%s" % style, "%s spec %r raised %s, documented: %s (%s)" % (style, spec, got, sorted(allowed), info), dict(spec=spec, style=style))
        else:
            # an error may have come from deeper down (PIL refusing a colour the parser let
            # through, say): the same specifier on an image without transparency -- where
            # nothing looks at the colour -- must be rejected just the same
            try:
                format(st.images_opaque[style], spec)
                res.violation("C19:accepted-invalid:%s" % style, "%s spec %r accepted for an image without transparency (rejected with %s for one with), but: %s" % (style, spec, got, info), dict(spec=spec, style=style))
                return
            except Exception:
                pass
            after = snapshot(st.images)
            if after != before:
                res.violation("C19:side-effect:%s" % style, "%s spec %r rejected but state changed" % (style, spec), dict(spec=spec, style=style))
                st.snap = after
            # the same rejection on an image in its default state (dynamic size): nothing
            # about the image may have changed either
            dyn = st.images_dyn[style]
            d0 = sorted((k, repr(v)) for k, v in vars(dyn).items() if k != "_source")
            try:
                format(dyn, spec)
            except Exception:
                pass
            d1 = sorted((k, repr(v)) for k, v in vars(dyn).items() if k != "_source")
            res.count("rejections repeated on a dynamic-size image")
            if d1 != d0:
                res.violation("C19:side-effect:%s" % style, "%s spec %r rejected but the (dynamic-size) image changed: %s" % (style, spec, [(a, b) for a, b in zip(d0, d1) if a != b][:2]), dict(spec=spec, style=style))
                st.images_dyn[style] = type(dyn)(dyn._source)


def run_shard(shard, env):
    from PIL import Image

    from ..lib import setup_styles, style_classes

    res = Result(shard)
    setup_styles(env)
    st = State()
    src = Image.new("RGBA", (2, 2))
    src.putdata([(250, 10, 20, 255), (30, 240, 50, 100), (60, 70, 230, 30), (5, 5, 5, 0)])
    st.images = {name: cls(src, width=2, height=1) for name, cls in style_classes().items()}
    st.images_dyn = {name: cls(src) for name, cls in style_classes().items()}
    st.images_opaque = {name: cls(src.convert("RGB"), width=2, height=1) for name, cls in style_classes().items()}
    st.snap = snapshot(st.images)
    try:
        if "replay" in shard:
            c = shard["replay"]
            check_one(c["spec"], c["style"], st, res, env, via_draw=True)
            res.case((c["style"], c["spec"]))
            return res.as_dict()
        tier = shard["tier"]
        n = 0
        for spec in all_strings(MAXLEN[tier], shard["index"], shard["n"]):
            for style in ("block", "kitty", "iterm2"):
                check_one(spec, style, st, res, env, via_draw=(n % 97 == 0))
                n += 1
            if res.too_many():
                break
        res.count("exhaustive strings", n // 3)
        exhaustive_n = n
        # the same specifier strings again at other terminal sizes, in the same process:
        # terminal-relative padding (absent / zero dimensions) must follow the terminal
        resize_specs = ["", "<", ">0", ".^", "|._", "<.^#", "0.0", ".0", "5", ".3", "<0.-0+" + "W", "|#.5"]
        for (c_, r_) in ((30, 9), (7, 3), (12, 6)):
            env.set_winsize(c_, r_, c_ * 8, r_ * 16)
            for spec in resize_specs:
                for style in ("block", "kitty", "iterm2"):
                    if "+" in spec and style == "block":
                        continue
                    check_one(spec, style, st, res, env, via_draw=(style == "block"))
                    res.count("specs re-evaluated after a terminal resize")
        rnd = random.Random("%s/c19/%s" % (shard["seed"], shard["index"]))
        seen = set()
        for _ in range(RANDOM[tier] // shard["n"]):
            if rnd.random() < 0.02:
                c_, r_ = rnd.randint(3, 40), rnd.randint(2, 14)
                env.set_winsize(c_, r_, c_ * 8, r_ * 16)
            style = rnd.choice(["block", "kitty", "iterm2"])
            spec = gen_sentence(rnd, style)
            check_one(spec, style, st, res, env, via_draw=(rnd.random() < 0.05))
            if len(spec) > MAXLEN[tier] or any(ch not in ALPHABET for ch in spec):
                seen.add((style, spec))
            res.count("random sentences / near-sentences")
            if res.too_many():
                break
        res.cases = exhaustive_n + RANDOM[tier] // shard["n"]
        d = res.as_dict()
        d["distinct"] = []
        d["distinct_count"] = exhaustive_n + len(seen)
        d["samples"] = [dict(style="kitty", spec=s) for s in ("<9.^1", "#.9+W", ".##")] if shard["index"] == 0 else []
        return d
    except Exception:
        res.inconclusive.append(traceback.format_exc()[-2000:])
        return res.as_dict()
