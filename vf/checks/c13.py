"""C13 -- terminal attributes are always put back exactly as found."""

from __future__ import annotations

import inspect
import os
import random
import signal
import sys
import termios
import textwrap
import threading
import time
import traceback
import ast

from ..common import Result

ID = "C13"
LEVEL = "fault_enumeration"
NEEDS_PTY = True
N_ROUNDS = {"quick": 5, "thorough": 120}
RULE = (
    "operations {query_terminal, read_tty (timeout None / >= 0 / < 0, min, echo), read_tty_all, get_fg_bg_colors, "
    "get_terminal_name_version, get_cell_size via query, Renderable.draw(echo_input=False) still and animated} "
    "from random initial attribute sets (ICANON / ECHO / ISIG / IEXTEN / IXON / ICRNL / OPOST flags, VMIN, VTIME) "
    "on a real pty; outcomes: normal, time-out, predicate raising, and an exception (KeyboardInterrupt / OSError) "
    "raised before or after the k-th tcgetattr / tcsetattr / tcdrain / write / select / read -- and, for draw(), "
    "every write / flush of the output stream, those of its clean-up included, and the resource release in the drawn renderable's finalizer hook -- for ALL k (only the restoring "
    "tcsetattr itself, classified by stack walk at injection time, is excluded), plus a real SIGINT delivered "
    "while the main thread is parked in select; distinct = distinct (operation, initial-attribute class, fault "
    "position, exception kind) tuples"
)
ASSUMPTIONS = [
    "the names termios / os / select in the namespaces of term_image.utils and term_image.renderable._renderable "
    "are replaced by counting proxies that delegate to the real calls (DESIGN.md 2.3)",
    "a fault aimed at the restoring call (a tcsetattr issued by a frame of query_terminal / read_tty / "
    "Renderable.draw executing in a finally body) is skipped and counted",
    "a signal landing between entering a finally block and its first call cannot be excluded by any try/finally "
    "in Python and is not generated; one landing at a call made inside the clean-up before the restoring call can",
]
MIN_EVENTS = {"fault runs": {"quick": 5000, "thorough": 1000000}, "attribute comparisons": {"quick": 5000, "thorough": 1000000}}
SHARDS = 16


def plan(tier, seed):
    return [dict(persona="kitty-0.32", persona_kw=dict(fg=[1, 2, 3], bg=[4, 5, 6]), seed=seed, index=i, rounds=N_ROUNDS[tier], winsize=[40, 12, 0, 0]) for i in range(SHARDS)]


# ----------------------------------------------------------------------------- clean-up classifier

_RANGES = None


def cleanup_ranges():
    global _RANGES
    if _RANGES is not None:
        return _RANGES
    from term_image import utils
    from term_image.renderable import Renderable

    out = {}
    for fn in (inspect.unwrap(utils.query_terminal), inspect.unwrap(utils.read_tty), Renderable.draw):
        src = textwrap.dedent(inspect.getsource(fn))
        first = fn.__code__.co_firstlineno
        tree = ast.parse(src)
        rngs = []
        for t in ast.walk(tree):
            if isinstance(t, ast.Try) and t.finalbody:
                rngs.append((first + t.finalbody[0].lineno - 1, first + t.finalbody[-1].end_lineno - 1))
        out[(fn.__code__.co_filename, fn.__code__.co_name)] = rngs
    _RANGES = out
    return out


def in_cleanup(depth=2):
    rng = cleanup_ranges()
    f = sys._getframe(depth)
    while f is not None:
        r = rng.get((f.f_code.co_filename, f.f_code.co_name))
        if r and any(a <= f.f_lineno <= b for a, b in r):
            return True
        f = f.f_back
    return False


class Sys:
    """Counting / faulting proxies for the system calls of one operation."""

    def __init__(self):
        self.calls = []  # (name, cleanup?)
        self.fault = None  # (index, "before"|"after", exception factory)
        self.fired = None
        self.skipped = False
        self.parked = threading.Event()
        self.want_park = False

    def call(self, name, real, *a, **k):
        idx = len(self.calls)
        cu = in_cleanup(3)
        self.calls.append((name, cu))
        f = self.fault
        hit = f is not None and f[0] == idx and self.fired is None
        # only the restoring call itself is out of bounds; the other calls of a clean-up
        # (draw() writes a newline and shows the cursor there) are boundaries like any other
        if hit and cu and name == "termios.tcsetattr":
            self.skipped = True
            hit = False
            self.fault = None
        if hit and f[1] == "before":
            self.fired = (name, idx, "before")
            raise f[2]()
        if name == "select" and self.want_park:
            self.parked.set()
        r = real(*a, **k)
        if hit and f[1] == "after":
            self.fired = (name, idx, "after")
            raise f[2]()
        return r


class ModProxy:
    def __init__(self, real, sysobj, names, label):
        object.__setattr__(self, "_real", real)
        object.__setattr__(self, "_sys", sysobj)
        object.__setattr__(self, "_names", names)
        object.__setattr__(self, "_label", label)

    def __getattr__(self, name):
        real = getattr(self._real, name)
        if name in self._names:
            s = self._sys

            def wrapper(*a, **k):
                return s.call(self._label + "." + name, real, *a, **k)

            return wrapper
        return real


class StreamProxy:
    """sys.stdout during a draw(): every write / flush is a system-call boundary."""

    def __init__(self, real, sysobj):
        self._real = real
        self._sys = sysobj

    def write(self, data):
        return self._sys.call("stdout.write", self._real.write, data)

    def flush(self):
        return self._sys.call("stdout.flush", self._real.flush)

    def __getattr__(self, name):
        return getattr(self._real, name)


class patched:
    def __init__(self, sysobj):
        self.s = sysobj

    def __enter__(self):
        from term_image import utils
        from term_image.renderable import _renderable as rmod

        self.saved = (utils.termios, utils.os, utils.select, rmod.termios)
        # (every function of the module is a boundary, whether the library uses it today or not)
        tp = ModProxy(termios, self.s, {n for n in dir(termios) if n.startswith("tc") and callable(getattr(termios, n))}, "termios")
        utils.termios = tp
        utils.os = ModProxy(os, self.s, {"read", "write"}, "os")
        real_select = self.saved[2]
        s = self.s
        utils.select = lambda *a, **k: s.call("select", real_select, *a, **k)
        rmod.termios = tp
        self.stdout = sys.stdout
        sys.stdout = StreamProxy(sys.stdout, self.s)
        # the renderables drawn release a resource in their finalizer hook: one more
        # boundary inside draw() (after the attributes have been put back, normally)
        from .. import subjects

        subjects.on_finalize = lambda: s.call("finalizer.close", lambda: None)
        global CURRENT
        CURRENT = s
        return self

    def __exit__(self, *a):
        from term_image import utils
        from term_image.renderable import _renderable as rmod

        utils.termios, utils.os, utils.select, rmod.termios = self.saved
        sys.stdout = self.stdout
        from .. import subjects

        subjects.on_finalize = None
        global CURRENT
        CURRENT = None


# ----------------------------------------------------------------------------- operations


class PredicateError(Exception):
    pass


CURRENT = None  # the Sys of the operation under way


def boundary(pred):
    """The caller's predicate is code of the caller's: each of its invocations is a point
    at which the operation may be interrupted, whenever the library chooses to invoke it."""

    def wrapped(data):
        s = CURRENT
        return s.call("predicate", pred, data) if s is not None else pred(data)

    return wrapped


def make_ops(rnd, env):
    """-> list of (name, callable, needs_input bytes or None, expected exception or None)"""
    from term_image import utils

    ops = []

    def q_da1():
        return utils.query_terminal(b"\x1b[c", boundary(lambda s: not s.endswith(b"c")), 0.3)

    def q_noreply():
        return utils.query_terminal(b"\x1b[5n", boundary(lambda s: True), 0.03)  # nobody answers: time-out

    def q_pred_raises():
        def more(s):
            if s:
                raise PredicateError("predicate")
            return True

        return utils.query_terminal(b"\x1b[c", more, 0.3)

    ops += [("query_terminal/reply", q_da1, None, None), ("query_terminal/time-out", q_noreply, None, None), ("query_terminal/predicate-raises", q_pred_raises, None, PredicateError)]
    echo = rnd.random() < 0.5
    ops.append(("read_tty/timeout-none", lambda: utils.read_tty(echo=echo), b"ab", None, dict(echo=echo, vmin=0)))
    ops.append(("read_tty_all", utils.read_tty_all, b"xyz", None))
    ops.append(("read_tty/timeout-positive", lambda: utils.read_tty(lambda s: len(s) < 2, 0.2, echo=echo), b"pq", None, dict(echo=echo, vmin=0)))
    ops.append(("read_tty/timeout-expires", lambda: utils.read_tty(lambda s: True, 0.02), None, None))
    ops.append(("read_tty/timeout-negative", lambda: utils.read_tty(lambda s: len(s) < 3, -1.0, echo=echo), b"uvw", None))
    m = rnd.randint(1, 3)
    ops.append(("read_tty/min", lambda: utils.read_tty(lambda s: False, 0.2, m, echo=echo), b"m" * m, None, dict(echo=echo, vmin=m)))

    def pred_raises(s):
        if s:
            raise PredicateError("predicate")
        return True

    ops.append(("read_tty/predicate-raises", lambda: utils.read_tty(pred_raises, 0.2), b"z", PredicateError))

    def colours():
        import term_image

        term_image.disable_queries()
        term_image.enable_queries()
        return utils.get_fg_bg_colors()

    def namever():
        import term_image

        term_image.disable_queries()
        term_image.enable_queries()
        return utils.get_terminal_name_version()

    def cellsize():
        import term_image

        term_image.disable_queries()
        term_image.enable_queries()
        return utils.get_cell_size()

    ops += [("get_fg_bg_colors", colours, None, None), ("get_terminal_name_version", namever, None, None), ("get_cell_size/query", cellsize, None, None)]

    def make_draw(animated, hide_cursor):
        def draw():
            from .. import drawlib as dl
            from ..subjects import SubjSGR

            if animated:
                with dl.patched_time(dl.VirtualTime()):
                    SubjSGR(2, 1, (2, 1), "text").draw(echo_input=False, loops=1, hide_cursor=hide_cursor)
            else:
                SubjSGR(1, 1, (2, 1), "text").draw(echo_input=False, check_size=False, hide_cursor=hide_cursor)

        return draw

    def nested_draw():
        # a renderable that, while being rendered, draws another one (a caption, a header)
        from ..subjects import SubjSGR

        outer, inner = SubjSGR(1, 1, (2, 1), "text"), SubjSGR(1, 1, (3, 1), "text")
        outer.on_render = lambda: inner.draw(echo_input=False, check_size=False)
        outer.draw(echo_input=False, check_size=False)

    ops.append(("draw/nested", nested_draw, None, None))
    for animated in (False, True):
        for hc in (True, False):
            ops.append(("draw/%s%s" % ("animated" if animated else "still", "" if hc else "/cursor-not-hidden"), make_draw(animated, hc), None, None))
    return ops


def random_attrs(rnd, base, hint=None):
    a = [x if not isinstance(x, list) else list(x) for x in base]
    if hint is not None and rnd.random() < 0.4:
        # the terminal is already in (or close to) the mode the operation switches to --
        # e.g. left in cbreak/raw mode by tty.setcbreak(), curses or urwid
        a[3] &= ~termios.ICANON
        a[3] = (a[3] | termios.ECHO) if hint["echo"] else (a[3] & ~termios.ECHO)
        a[6][termios.VTIME] = 0
        a[6][termios.VMIN] = rnd.choice([hint["vmin"], hint["vmin"], 1])
        a[1] |= termios.OPOST | termios.ONLCR
        return a
    lf = a[3]
    for flag in (termios.ICANON, termios.ECHO, termios.ISIG, termios.IEXTEN, termios.ECHOE, termios.ECHOK, termios.ECHONL):
        if rnd.random() < 0.5:
            lf |= flag
        else:
            lf &= ~flag
    a[3] = lf
    for flag in (termios.IXON, termios.ICRNL, termios.INLCR, termios.IGNCR):
        if rnd.random() < 0.5:
            a[0] |= flag
        else:
            a[0] &= ~flag
    a[1] |= termios.OPOST | termios.ONLCR  # the harness reads the output through ONLCR
    a[6][termios.VMIN] = rnd.choice([0, 1, 1, 2, 5])
    a[6][termios.VTIME] = rnd.choice([0, 0, 1, 7])
    return a


def attr_class(a):
    return (bool(a[3] & termios.ICANON), bool(a[3] & termios.ECHO), bool(a[3] & termios.ISIG), a[6][termios.VMIN] != 1, a[6][termios.VTIME] != 0)


def exc_factory(name):
    if name == "KeyboardInterrupt":
        return KeyboardInterrupt
    return lambda: OSError(5, "injected I/O error")


def run_op(op, attrs, env, fault, res, sigint=False):
    name, fn, typed, expect = op[:4]
    env.flush_input()
    termios.tcsetattr(env.slave, termios.TCSANOW, attrs)
    before = termios.tcgetattr(env.slave)
    s = Sys()
    s.fault = fault
    if typed:
        env.type_input(typed)
        time.sleep(0.002)
    outcome = "returned"
    killer = None
    if sigint:
        s.want_park = True
        main_id = threading.main_thread().ident

        armed = [True]
        kill_lock = threading.Lock()

        def kill():
            if s.parked.wait(2.0):
                time.sleep(0.003)
                with kill_lock:
                    if armed[0]:  # never after the operation has returned
                        signal.pthread_kill(main_id, signal.SIGINT)

        killer = threading.Thread(target=kill, daemon=True)
        killer.start()
    try:
        with patched(s):
            fn()
    except KeyboardInterrupt:
        outcome = "KeyboardInterrupt"
    except PredicateError:
        outcome = "PredicateError"
    except OSError as e:
        outcome = "OSError"
    except Exception as e:
        outcome = type(e).__name__
    if killer:
        # a signal sent just before the operation returned may still be delivered here
        for _ in range(3):
            try:
                with kill_lock:
                    armed[0] = False
                killer.join(3.0)
                time.sleep(0.005)
                break
            except KeyboardInterrupt:
                res.count("SIGINT delivered after the operation had returned (ignored)")
    after = termios.tcgetattr(env.slave)
    res.count("attribute comparisons")
    env.capturing = True
    env.take()
    return s, outcome, before, after


def diff_attrs(b, a):
    names = ["iflag", "oflag", "cflag", "lflag", "ispeed", "ospeed", "cc"]
    out = []
    for i, n in enumerate(names):
        if b[i] != a[i]:
            if n == "cc":
                out.append("cc: " + ", ".join("[%d] %r->%r" % (j, x, y) for j, (x, y) in enumerate(zip(b[i], a[i])) if x != y))
            else:
                out.append("%s: %#x -> %#x" % (n, b[i], a[i]))
    return "; ".join(out)


def run_round(rnd, env, res, base):
    ops = make_ops(rnd, env)
    for op in ops:
        attrs = random_attrs(rnd, base, op[4] if len(op) > 4 else None)
        ac = attr_class(attrs)
        s, outcome, b, a = run_op(op, attrs, env, None, res)
        res.count("fault-free operations")
        res.case((op[0], ac, None))
        expect = op[3].__name__ if op[3] else "returned"
        if outcome != expect:
            res.violation("C13:outcome:" + op[0], "fault-free %s ended with %s, expected %s" % (op[0], outcome, expect), dict(op=op[0]))
            continue
        if a != b:
            res.violation("C13:not-restored:" + op[0], "%s (%s): attributes differ after a fault-free run: %s" % (op[0], outcome, diff_attrs(b, a)), dict(op=op[0], attrs=str(ac)))
            continue
        K = len(s.calls)
        res.count("system calls enumerated", K)
        for k in range(K):
            for pos in ("before", "after"):
                for exc in ("KeyboardInterrupt", "OSError"):
                    if (k * 7 + hash(pos) + len(exc)) % 2 and pos == "after" and exc == "OSError":
                        continue  # thin out one of the four combinations
                    s2, outcome, b, a = run_op(op, attrs, env, (k, pos, exc_factory(exc)), res)
                    res.count("fault runs")
                    if s2.skipped:
                        res.count("faults skipped: the call was the restoring one")
                        continue
                    if s2.fired is None:
                        res.count("faults not reached")
                        continue
                    res.count("fault at " + s2.fired[0])
                    res.case((op[0], ac, s2.fired[0], k, pos, exc))
                    if a != b:
                        res.violation(
                            "C13:not-restored:%s" % op[0],
                            "%s: %s raised %s call #%d (%s) -> %s; terminal attributes not restored: %s" % (op[0], exc, pos, k, s2.fired[0], outcome, diff_attrs(b, a)),
                            dict(op=op[0], k=k, pos=pos, exc=exc, attrs=str(ac)),
                        )
                        if res.too_many():
                            return
        # a real SIGINT while parked in select (operations that wait)
        if op[0] in ("query_terminal/time-out", "read_tty/timeout-expires"):
            s3, outcome, b, a = run_op(op, attrs, env, None, res, sigint=True)
            res.count("real SIGINT runs")
            res.case((op[0], ac, "SIGINT"))
            if outcome == "KeyboardInterrupt":
                res.count("real SIGINT delivered while parked in select")
            if a != b:
                res.violation("C13:not-restored:sigint:" + op[0], "%s: real SIGINT while waiting (%s); attributes not restored: %s" % (op[0], outcome, diff_attrs(b, a)), dict(op=op[0], sigint=True))
    res.sample(dict(operations=[o[0] for o in ops]))


def run_shard(shard, env):
    res = Result(shard)
    try:
        import term_image

        term_image.set_query_timeout(0.3)
        base = termios.tcgetattr(env.slave)
        rnd = random.Random("%s/c13/%s" % (shard["seed"], shard["index"]))
        for _ in range(1 if "replay" in shard else shard["rounds"]):
            run_round(rnd, env, res, base)
            if res.too_many():
                break
        termios.tcsetattr(env.slave, termios.TCSANOW, base)
    except Exception:
        res.inconclusive.append(traceback.format_exc()[-2000:])
    return res.as_dict()
