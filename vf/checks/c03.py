"""C03 -- graphics renders transmit exactly the image, in well-formed protocol framing."""

from __future__ import annotations

import io
import os
import random
import shutil
import tempfile
import traceback

from ..common import Result, rand_pixels
from ..env import vt_personality
from ..proto import ProtocolError, parse_iterm2, parse_kitty, residue_ok

ID = "C03"
LEVEL = "exploration"
NEEDS_PTY = True
RULE = (
    "deterministic chunk-boundary sweep (uncompressed and zlib-compressed RGB/RGBA payloads whose base64 length is "
    "4096k + {-12..+12}, k = 1..3) plus random cases over cell size 1..20 x 1..40, size in cells, method "
    "(LINES/WHOLE/ANIM), compression 0..9, alpha setting, z-index, blend, mix, jpeg quality, read_from_file policy "
    "and source kind (PIL in memory, PIL with filename, file path; PNG/JPEG/BMP/GIF files); every render is "
    "tokenized by a strict protocol parser and its decoded pixels compared with the expected image (identity "
    "sources = generator arrays; resampled = PIL BOX); distinct = distinct (style, method, identity, source kind, "
    "mode, alpha kind, payload-length class, chunk count) tuples"
)
ASSUMPTIONS = [
    "strict tokenizers in vf/proto.py (from the kitty and iTerm2 protocol documents)",
    "identity cases (source size = transmitted resolution) compare with the generator's own arrays; resampled cases "
    "trust PIL convert/resize(BOX)/alpha_composite; JPEG payloads are checked for format, dimensions and a loose "
    "mean error only",
    "read-from-file is required in the documented clear cases, forbidden when manipulation is requested, and "
    "either way for P/PA sources",
]
N_RANDOM = {"quick": 150, "thorough": 30000}
MIN_EVENTS = {"graphics commands parsed": {"quick": 5000, "thorough": 100000}, "pixels compared": {"quick": 1000000, "thorough": 20000000}}
PERSONAS = ["kitty-0.32", "konsole", "wezterm", "iterm2"]
OPAQUE = {"1", "L", "RGB", "HSV", "CMYK"}


def plan(tier, seed):
    shards = []
    for p in PERSONAS:
        shards.append(dict(persona=p, kind="sweep", seed=seed, index=0))
        for i in range(3):
            shards.append(dict(persona=p, kind="random", seed=seed, index=i, count=N_RANDOM[tier]))
    return shards


def hexcol(h):
    return tuple(int(h[i : i + 2], 16) for i in (1, 3, 5))


def expected(src, alpha, target, termbg):
    """Independent statement of what must be transmitted: (mode, bytes)."""
    from PIL import Image

    if alpha is None or src.mode in OPAQUE:
        e = src.convert("RGB")
        if e.size != target:
            e = e.resize(target, Image.Resampling.BOX)
        return e
    e = src.convert("RGBA")
    if e.size != target:
        e = e.resize(target, Image.Resampling.BOX)
    if isinstance(alpha, str):
        col = (termbg or (0, 0, 0)) if alpha == "#" else hexcol(alpha)
        bg = Image.new("RGBA", e.size, tuple(col) + (255,))
        bg.alpha_composite(e)
        return bg.convert("RGB")
    return e


def build_source(case, rnd, tmpdir, n):
    """-> (image object (library), PIL source as the oracle sees it, file bytes or None, closer)"""
    from PIL import Image

    sw, sh = case["src"]
    mode = case["mode"]
    if case.get("smooth"):
        px = [((x * 255) // max(sw - 1, 1), (y * 255) // max(sh - 1, 1), ((x + y) * 127) // max(sw + sh - 2, 1), 255) for y in range(sh) for x in range(sw)]
    else:
        px = rand_pixels(rnd, sw, sh, case.get("pattern"))
    im = Image.new("RGBA", (sw, sh))
    im.putdata(px)
    if mode == "RGB":
        im = im.convert("RGB")
    elif mode != "RGBA":
        from ..common import make_image

        im = make_image(random.Random(case["img_seed"]), sw, sh, mode, case.get("pattern"))
    if case.get("keyed") and im.mode in ("P", "L", "RGB"):
        # colour-keyed transparency (a PNG tRNS chunk, a GIF's transparent index): PIL keeps
        # it as an ``info`` entry, not as an alpha band
        im.info["transparency"] = im.getpixel((0, 0))
    return im


def run_case(case, env, res, tmpdir, state):
    from PIL import Image

    from ..lib import refresh_queries, set_terminal, style_classes

    rnd = random.Random(case["img_seed"])
    style = case["style"]
    cls = style_classes()[style]
    cw, ch = case["cell"]
    set_terminal(env, 60, 30, cw, ch)
    termbg = env.persona.bg and tuple(env.persona.bg)
    W, H = case["size"]
    pil = build_source(case, rnd, tmpdir, state["n"])
    state["n"] += 1
    source = case["source"]
    file_bytes = None
    path = None
    fmt = case.get("file_fmt", "PNG")
    if case.get("frames"):
        # an animated source, of which a one-off render shows the current frame -- whatever
        # frames were current (and rendered) before
        from ..common import make_anim_file

        path = os.path.join(tmpdir, "c03-%d.%s" % (state["n"], fmt.lower()))
        make_anim_file(rnd, path, case["src"][0], case["src"][1], case["frames"], fmt)
        oracle_src = Image.open(path)
        image = cls.from_file(path, width=W, height=H) if source == "file" else cls(Image.open(path), width=W, height=H)
        if style == "iterm2":
            image.read_from_file = False
        for k in case["visits"][:-1]:
            image.seek(k)
            if case.get("render_visits", True):
                format(image, "1.1#")
            res.count("frames of animated sources visited before the judged render")
        image.seek(case["visits"][-1])
        oracle_src.seek(case["visits"][-1])
        oracle_src.load()
        source = "pil"  # (never read from file: judged by its pixels)
    elif source != "pil":
        path = os.path.join(tmpdir, "c03-%d.%s" % (state["n"], fmt.lower()))
        save_im = pil
        if fmt in ("JPEG", "BMP") and pil.mode not in ("RGB", "L"):
            save_im = pil.convert("RGB")
        if fmt == "GIF":
            save_im = pil.convert("RGB").convert("P")
        save_im.save(path, fmt)
        with open(path, "rb") as f:
            file_bytes = f.read()
        oracle_src = Image.open(path)
        oracle_src.load()
        if source == "file":
            image = cls.from_file(path, width=W, height=H)
        else:  # PIL image that has a filename
            opened = Image.open(path)
            image = cls(opened, width=W, height=H)
    else:
        oracle_src = pil
        image = cls(pil, width=W, height=H)
    alpha_spec = case["alpha"]
    if alpha_spec == "":
        alpha = 40 / 255
    elif alpha_spec == "#":
        alpha = None
    elif alpha_spec == "##":
        alpha = "#"
    elif alpha_spec.startswith("#."):
        alpha = float(alpha_spec[1:])
    else:
        alpha = alpha_spec
    if style == "iterm2":
        if case.get("jpeg") is not None:
            image.jpeg_quality = case["jpeg"]
        if case.get("rff") is not None:
            image.read_from_file = case["rff"]
    method = case["method"]
    spec = "1.1" + alpha_spec + "+" + {"lines": "L", "whole": "W"}[method] + case.get("stylespec", "")
    if case.get("redrawn") and source == "pil" and not case.get("frames") and not case.get("smooth"):
        # the caller's PIL image is drawn on in place after a first render of the same
        # instance (same size, transparency and method): the judged render transmits the
        # image's pixels as they are now
        format(image, spec)
        pil.paste(pil.transpose(Image.ROTATE_180))
        res.count("renders of an instance whose source was modified in place after an earlier render")
    if case.get("blend") is False:
        _, _, _, _, a_, sargs = image._check_format_spec(spec)
        out = image._renderer(image._render_image, a_, blend=False, **sargs)
    else:
        out = format(image, spec)

    render_px = (W * cw, H * ch)
    ori = oracle_src.size
    if method == "whole":
        target = render_px if render_px[0] * render_px[1] < ori[0] * ori[1] else ori
    else:
        target = render_px
    identity = target == ori
    errs = []
    n_cmds = 0
    desc = None
    try:
        if style == "kitty":
            items, rest = parse_kitty(out)
            if not residue_ok(rest):
                errs.append(("residue", rest[:40]))
            imgs = [it for it in items if it[0] == "image"]
            dels = [it for it in items if it[0] == "delete"]
            n_cmds = len(items)
            comp = case.get("compress", 4)
            z = case.get("z", 0)
            want_n = H if method == "lines" else 1
            if len(imgs) != want_n:
                errs.append(("transmission-count", len(imgs), want_n))
            if (case.get("blend") is False) != (len(dels) == len(imgs) and all(d[1].get("d") == "C" for d in dels)) and (dels or case.get("blend") is False):
                errs.append(("blend-deletes", len(dels)))
            exp = expected(oracle_src, alpha, target, termbg)
            bpp = len(exp.mode)
            whole = b""
            for _, k0, data, lens in imgs:
                s, v, f = int(k0["s"]), int(k0["v"]), int(k0["f"])
                if len(data) != s * v * f // 8:
                    errs.append(("payload-size", len(data), (s, v, f)))
                if f != 8 * bpp:
                    errs.append(("pixel-format", f, exp.mode))
                want = dict(a="T", t="d", C="1", c=str(W), r=str(1 if method == "lines" else H), z=str(z))
                for k, v_ in want.items():
                    if k0.get(k) != v_:
                        errs.append(("key-" + k, k0.get(k), v_))
                if (k0.get("o") == "z") != (comp > 0):
                    errs.append(("compression-key", k0.get("o"), comp))
                if s != target[0] or v != (target[1] // H if method == "lines" else target[1]):
                    errs.append(("transmitted-resolution", (s, v), target))
                b64len = sum(lens)
                desc = (b64len % 4096 == 0, min(b64len % 4096, 4096 - b64len % 4096) <= 16, len(lens))
                if len(lens) != max(1, -(-b64len // 4096)):
                    errs.append(("chunk-count", len(lens), b64len))
                res.count("chunks checked", len(lens))
                whole += data
            if not errs:
                if whole != exp.tobytes():
                    errs.append(("pixels", "identity" if identity else "resampled"))
                res.count("pixels compared", len(whole) // bpp)
        else:
            items, rest = parse_iterm2(out)
            if not residue_ok(rest):
                errs.append(("residue", rest[:40]))
            n_cmds = len(items)
            want_n = H if method == "lines" else 1
            if len(items) != want_n:
                errs.append(("image-count", len(items), want_n))
            konsole = vt_personality(env.persona_name) == "konsole"
            for keys, data in items:
                if keys.get("size") != str(len(data)):
                    errs.append(("size-key", keys.get("size"), len(data)))
                want = dict(width=str(W), height=str(1 if method == "lines" else H), preserveAspectRatio="0", inline="1")
                for k, v_ in want.items():
                    if keys.get(k) != v_:
                        errs.append(("key-" + k, keys.get(k), v_))
                if (keys.get("doNotMoveCursor") == "1") != konsole:
                    errs.append(("doNotMoveCursor", keys.get("doNotMoveCursor"), konsole))
            if not errs:
                mode = oracle_src.mode
                rff = case.get("rff")
                policy = True if rff is None else rff
                readable = source != "pil"
                no_downscale = ori[0] * ori[1] <= render_px[0] * render_px[1]
                could = readable and method == "whole" and policy and no_downscale
                clear_alpha = mode in OPAQUE or (isinstance(alpha, float) and mode not in ("P", "PA"))
                must = could and clear_alpha
                may = could and (clear_alpha or (isinstance(alpha, float) and mode in ("P", "PA")))
                is_file = file_bytes is not None and items[0][1] == file_bytes
                if must and not is_file:
                    errs.append(("read-from-file-expected", mode, alpha_spec))
                res.count("read-from-file: " + ("file bytes" if is_file else "re-encoded"))
                # byte-equality with the file is only *evidence* of read-from-file (a
                # re-encode may reproduce the same bytes); where it is not allowed the
                # payload is judged like any re-encoded one: by its pixels
                if not (is_file and may):
                    exp = expected(oracle_src, alpha, target, termbg)
                    jq = case.get("jpeg")
                    want_jpeg = jq is not None and jq >= 0 and exp.mode == "RGB"
                    decoded = [Image.open(io.BytesIO(d)) for _, d in items]
                    for d_ in decoded:
                        d_.load()
                        if d_.format != ("JPEG" if want_jpeg else "PNG"):
                            errs.append(("encoding", d_.format, want_jpeg))
                    if exp.mode == "RGB" and not want_jpeg:
                        # the expected picture is opaque (transparency disabled, replaced by
                        # a colour, or absent): what a terminal decodes from the payload --
                        # colour-keyed (tRNS) transparency included -- must be opaque too
                        for d_ in decoded:
                            lo = d_.convert("RGBA").getchannel("A").getextrema()[0]
                            if lo != 255:
                                errs.append(("payload-not-opaque", "a %s payload (transparency entry %r) decodes with alpha down to %d" % (d_.mode, d_.info.get("transparency"), lo)))
                                break
                    if method == "lines":
                        if any(d_.size != (target[0], target[1] // H) for d_ in decoded):
                            errs.append(("strip-size", [d_.size for d_ in decoded][:3], target))
                        got = b"".join(d_.convert(exp.mode).tobytes() for d_ in decoded)
                    else:
                        if decoded[0].size != target:
                            errs.append(("image-size", decoded[0].size, target))
                        got = decoded[0].convert(exp.mode).tobytes()
                    if not errs:
                        if want_jpeg:
                            # lossy: the payload must decode to what PIL's JPEG codec makes of
                            # the expected image at the effective quality (strip by strip)
                            strips = [exp] if method != "lines" else [exp.crop((0, i * (target[1] // H), target[0], (i + 1) * (target[1] // H))) for i in range(H)]
                            eb = b""
                            for st_ in strips:
                                bio = io.BytesIO()
                                st_.save(bio, "jpeg", quality=jq)
                                eb += Image.open(io.BytesIO(bio.getvalue())).convert(exp.mode).tobytes()
                            if got != eb:
                                mae = sum(abs(a - b) for a, b in zip(got, eb)) / max(1, len(eb))
                                errs.append(("jpeg-pixels", round(mae, 2)))
                            res.count("jpeg payloads")
                        elif got != exp.tobytes():
                            errs.append(("pixels", "identity" if identity else "resampled", decoded[0].mode, exp.mode))
                        res.count("pixels compared", len(got) // len(exp.mode))
            desc = ("iterm2", len(items))
    except ProtocolError as e:
        errs.append(("framing:" + e.kind, e.detail))
    res.count("graphics commands parsed", n_cmds)
    res.count("identity cases" if identity else "resampled cases")
    res.case((style, method, identity, source, oracle_src.mode, alpha_spec[:2], desc, case.get("jpeg") is not None))
    res.sample({k: case[k] for k in case if k not in ("img_seed",)})
    image.close()
    if errs:
        res.violation(
            "C03:%s:%s" % (style, errs[0][0]),
            "%s %s %s src=%s %s %dx%d cells cell=%s alpha=%r [%s]: %r" % (style, method, source, oracle_src.mode, ori, W, H, (cw, ch), alpha_spec, env.persona_name, errs[:4]),
            case,
        )


def run_anim_case(case, env, res, tmpdir, state):
    """ANIM method: payload must be the untouched file / a re-saved animation."""
    from PIL import Image
    from term_image.image import ITerm2Image

    from ..common import make_anim_file
    from ..lib import set_terminal

    rnd = random.Random(case["img_seed"])
    set_terminal(env, 60, 30, *case["cell"])
    state["n"] += 1
    path = os.path.join(tmpdir, "c03a-%d.%s" % (state["n"], case["fmt"].lower()))
    if case.get("apng_blend") is not None:
        # an APNG of cut-outs (fully transparent around an opaque block that moves); the
        # frames are stored with the given blend operations, nothing is disposed of
        sw, sh = case["src"]
        frames = []
        for i in range(case["frames"]):
            fr = Image.new("RGBA", (sw, sh), (0, 0, 0, 0))
            x0 = (i * max(1, sw // case["frames"])) % sw
            for y in range(sh // 4, max(sh // 4 + 1, 3 * sh // 4)):
                for x in range(x0, min(sw, x0 + max(1, sw // 3))):
                    fr.putpixel((x, y), ((255, 0, 0, 255), (0, 255, 0, 255), (0, 0, 255, 255))[(i + x + y) % 3])
            frames.append(fr)
        frames[0].save(path, "PNG", save_all=True, append_images=frames[1:], blend=case["apng_blend"], disposal=0, duration=100, loop=0, **(dict(default_image=True) if case.get("apng_default") else {}))
    elif case.get("disposal") is not None:
        # a GIF whose frames are cut-outs: palette index 0 is transparent, every frame has
        # its opaque block elsewhere and is disposed of as given before the next one
        sw, sh = case["src"]
        frames = []
        for i in range(case["frames"]):
            fr = Image.new("P", (sw, sh), 0)
            fr.putpalette([0, 0, 0, 255, 0, 0, 0, 255, 0, 0, 0, 255] + [0] * (252 * 3))
            x0 = (i * max(1, sw // case["frames"])) % sw
            for y in range(sh // 4, max(sh // 4 + 1, 3 * sh // 4)):
                for x in range(x0, min(sw, x0 + max(1, sw // 3))):
                    fr.putpixel((x, y), 1 + (i + x + y) % 3)
            frames.append(fr)
        frames[0].save(path, "GIF", save_all=True, append_images=frames[1:], transparency=0, disposal=case["disposal"], duration=100, loop=0)
    else:
        make_anim_file(rnd, path, case["src"][0], case["src"][1], case["frames"], case["fmt"])
    with open(path, "rb") as f:
        file_bytes = f.read()
    W, H = case["size"]
    if case["source"] == "file":
        image = ITerm2Image.from_file(path, width=W, height=H)
    elif case["source"] == "memory":
        # no file to read from: the animation has to be encoded anew
        image = ITerm2Image(Image.open(io.BytesIO(file_bytes)), width=W, height=H)
    else:
        image = ITerm2Image(Image.open(path), width=W, height=H)
    out = format(image, "1.1+A")
    errs = []
    try:
        items, rest = parse_iterm2(out)
        if len(items) != 1:
            errs.append(("image-count", len(items)))
        else:
            keys, data = items[0]
            if keys.get("size") != str(len(data)):
                errs.append(("size-key", keys.get("size"), len(data)))
            if (keys.get("width"), keys.get("height")) != (str(W), str(H)):
                errs.append(("cells", keys.get("width"), keys.get("height")))
            if case["source"] == "memory":
                # (lossless formats only) the payload must decode to the source's frames
                src_im, got_im = Image.open(io.BytesIO(file_bytes)), Image.open(io.BytesIO(data))
                n_src = getattr(src_im, "n_frames", 1)
                if getattr(got_im, "n_frames", 1) != n_src:
                    errs.append(("anim-frame-count", getattr(got_im, "n_frames", 1), n_src))
                else:
                    for k in range(n_src):
                        src_im.seek(k)
                        got_im.seek(k)
                        if src_im.convert("RGBA").tobytes() != got_im.convert("RGBA").tobytes():
                            errs.append(("anim-frame-pixels", "frame %d of the re-encoded %s animation differs from the source's (disposal %r, blend %r)" % (k, case["fmt"], case.get("disposal"), case.get("apng_blend"))))
                            break
                    res.count("frames of re-encoded native animations compared", n_src)
            elif data != file_bytes:
                errs.append(("anim-payload-not-file-bytes", len(data), len(file_bytes)))
        res.count("graphics commands parsed", len(items))
        res.count("native animation payloads")
    except ProtocolError as e:
        errs.append(("framing:" + e.kind, e.detail))
    res.case(("iterm2", "anim", case["source"], case["fmt"], case["frames"]))
    image.close()
    if errs:
        res.violation("C03:iterm2:anim:%s" % errs[0][0], "iterm2 ANIM %s %s: %r" % (case["source"], case["fmt"], errs[:3]), case)


def gen_random(rnd, persona):
    style = rnd.choice(["kitty", "iterm2"])
    cw, ch = rnd.choice([(rnd.randint(1, 20), rnd.randint(1, 40)), (rnd.randint(1, 6), rnd.randint(1, 8)), (8, 16)])
    W, H = rnd.randint(1, 10), rnd.randint(1, 6)
    if W * cw * H * ch > 60000:
        cw, ch = min(cw, 6), min(ch, 8)
    method = rnd.choice(["lines", "whole"])
    identity = rnd.random() < 0.6
    if identity:
        src = [W * cw, H * ch]
        if method == "whole" and rnd.random() < 0.4:
            src = [rnd.randint(1, max(1, W * cw)), rnd.randint(1, max(1, H * ch))]
    elif rnd.random() < 0.25:
        # one dimension already right, the other not (square and non-square sources)
        src = rnd.choice([[W * cw, W * cw], [H * ch, H * ch], [W * cw, rnd.randint(1, 120)], [rnd.randint(1, 120), H * ch]])
        src = [min(max(v, 1), 400) for v in src]
    else:
        src = [rnd.randint(1, 120), rnd.randint(1, 120)]
    case = dict(
        kind="still",
        style=style,
        cell=[cw, ch],
        size=[W, H],
        method=method,
        src=src,
        mode=rnd.choice(["RGB", "RGBA", "RGBA", "L", "LA", "P", "PA", "1", "CMYK"]) if not identity or rnd.random() < 0.3 else rnd.choice(["RGB", "RGBA"]),
        alpha=rnd.choice(["", "", "#", "##", "#102030", "#.5", "#ffffff"]),
        source=rnd.choice(["pil", "pil", "file", "file", "pilfile"]),
        img_seed=rnd.getrandbits(32),
        pattern=rnd.choice([None, "noise", "runs", "alpha-edge"]),
    )
    if case["source"] != "pil":
        case["file_fmt"] = rnd.choice(["PNG", "PNG", "PNG", "JPEG", "BMP", "GIF"])
        if case["mode"] not in ("1", "L", "LA", "P", "RGB", "RGBA"):
            case["mode"] = "RGBA"  # what a PNG file can hold
    sp = []
    if style == "kitty":
        if rnd.random() < 0.5:
            case["z"] = rnd.choice([0, 1, -1, 2**31 - 1, -(2**31) + 1, rnd.randint(-(2**31) + 1, 2**31 - 1)])
            sp.append("z%d" % case["z"])
        if rnd.random() < 0.4:
            sp.append("m%d" % rnd.randint(0, 1))
        if rnd.random() < 0.7:
            case["compress"] = rnd.randint(0, 9)
            sp.append("c%d" % case["compress"])
        if rnd.random() < 0.25:
            case["blend"] = False
    else:
        if rnd.random() < 0.4:
            sp.append("m%d" % rnd.randint(0, 1))
        if rnd.random() < 0.5:
            sp.append("c%d" % rnd.randint(0, 9))
        case["jpeg"] = rnd.choice([None, None, None, -1, 0, 60, 95])
        if case["jpeg"] is not None and case["jpeg"] >= 0:
            case["smooth"] = True
            case["mode"] = rnd.choice(["RGB", "RGBA"])
        case["rff"] = rnd.choice([None, None, True, False])
    case["stylespec"] = "".join(sp)
    case["redrawn"] = rnd.random() < 0.25
    if rnd.random() < 0.12:
        n = rnd.randint(2, 5)
        case.update(frames=n, visits=[rnd.randrange(n) for _ in range(rnd.randint(1, 4))], render_visits=rnd.random() < 0.7, file_fmt=rnd.choice(["GIF", "WEBP"]), source=rnd.choice(["pilfile", "file"]), mode="RGB", alpha=rnd.choice(["#", "", "#102030"]))
        case["src"] = [min(case["src"][0], 60), min(case["src"][1], 60)]
        case.pop("jpeg", None)
        case.pop("smooth", None)
    return case


def gen_sweep(persona):
    # kitty: uncompressed and compressed payloads around the 4096-character chunk boundary
    for bpp, mode in ((3, "RGB"), (4, "RGBA")):
        for k in (1, 2, 3):
            for d in range(-4, 5):
                npx = (3072 * k) // bpp + d
                for comp in (0, 1, 4, 9):
                    for method in ("whole", "lines"):
                        yield dict(kind="still", style="kitty", cell=[1, 1], size=[npx, 1], method=method, src=[npx, 1], mode=mode, alpha="" if mode == "RGBA" else "#", source="pil", img_seed=npx * 31 + comp, pattern="noise", compress=comp, stylespec="c%d" % comp)
    # multi-line LINES strips that must stitch, and tiny payloads
    for W in (1, 2, 3):
        for H in (1, 2, 5):
            for comp in (0, 4):
                yield dict(kind="still", style="kitty", cell=[3, 2], size=[W, H], method="lines", src=[W * 3, H * 2], mode="RGBA", alpha="", source="pil", img_seed=W * 7 + H, pattern="noise", compress=comp, stylespec="c%d" % comp)
                yield dict(kind="still", style="iterm2", cell=[3, 2], size=[W, H], method="lines", src=[W * 3, H * 2], mode="RGBA", alpha="", source="pil", img_seed=W * 7 + H, pattern="noise", stylespec="c%d" % comp)
    # sources whose transparency is a colour key: what is transmitted must be opaque when
    # transparency is disabled / replaced by a colour (and for the modes the library treats
    # as opaque), whatever the method and the style
    j = 0
    for style in ("kitty", "iterm2"):
        for method in ("whole", "lines"):
            for mode in ("P", "L", "RGB"):
                for alpha in ("#", "#102030", "", "##"):
                    for source in ("pil", "file", "pilfile"):
                        for src in ([8, 8], [40, 30]):
                            j += 1
                            c = dict(kind="still", style=style, cell=[4, 8], size=[3, 2], method=method, src=src, mode=mode, alpha=alpha, source=source, img_seed=9000 + j, pattern="runs", keyed=True)
                            if source != "pil":
                                c["file_fmt"] = "PNG"
                            if style == "iterm2":
                                c["rff"] = (j % 2 == 0)
                            yield c
    # sources that agree with the render's pixel size in one dimension only
    for style in ("kitty", "iterm2"):
        for method in ("whole", "lines"):
            for cell, size, src in (([10, 16], [4, 1], [40, 40]), ([10, 7], [6, 3], [60, 60]), ([4, 8], [2, 3], [24, 24]), ([4, 8], [5, 3], [20, 30]), ([4, 8], [5, 3], [30, 24]), ([1, 2], [1, 1], [1, 1]), ([1, 2], [2, 2], [2, 2])):
                yield dict(kind="still", style=style, cell=cell, size=size, method=method, src=src, mode="RGB", alpha="#", source="pil", img_seed=src[0] * 13 + size[1], pattern="noise", rff=False)
    j = 0
    for style in ("kitty", "iterm2"):
        for method in ("whole", "lines"):
            for fmt in ("GIF", "WEBP"):
                for source in ("pilfile", "file"):
                    for visits in ([2, 0], [1, 2, 0], [3, 1], [0], [2], [1, 1]):
                        for alpha in ("#", ""):
                            j += 1
                            yield dict(kind="still", style=style, cell=[4, 8], size=[3, 2], method=method, src=[12, 16], mode="RGB", alpha=alpha, source=source, file_fmt=fmt, frames=4, visits=visits, render_visits=j % 3 != 0, img_seed=7000 + j)
    for blend in ([0, 0, 0], [0, 0, 1], [0, 1, 0], [1, 1, 1]):
        yield dict(kind="anim", cell=[4, 8], size=[3, 2], src=[12, 8], frames=3, fmt="PNG", source="memory", apng_blend=blend, img_seed=sum(blend) + 40)
    # an APNG whose first picture is a "default image" (shown by viewers that do not know
    # APNG, not part of the animation): the animation is the remaining frames
    yield dict(kind="anim", cell=[4, 8], size=[3, 2], src=[12, 8], frames=4, fmt="PNG", source="memory", apng_blend=[0, 0, 0], apng_default=True, img_seed=77)
    for frames in (2, 3, 4):
        yield dict(kind="anim", cell=[4, 8], size=[3, 2], src=[12, 8], frames=frames, fmt="GIF", source="memory", img_seed=frames * 7)
        for disposal in (0, 1, 2, 3):
            yield dict(kind="anim", cell=[4, 8], size=[3, 2], src=[12, 8], frames=frames, fmt="GIF", source="memory", disposal=disposal, img_seed=frames * 11 + disposal)
    for fmt in ("GIF", "WEBP", "PNG"):
        for source in ("file", "pilfile"):
            for frames in (2, 3):
                yield dict(kind="anim", cell=[4, 8], size=[3, 2], src=[7, 5], frames=frames, fmt=fmt, source=source, img_seed=frames * 5)


def run_shard(shard, env):
    from ..lib import setup_styles

    res = Result(shard)
    setup_styles(env)
    tmpdir = tempfile.mkdtemp(prefix="vf-c03-")
    state = {"n": 0}
    try:
        if "replay" in shard:
            cases = [shard["replay"]]
        elif shard["kind"] == "sweep":
            cases = gen_sweep(shard["persona"])
        else:
            rnd = random.Random("%s/c03/%s/%s" % (shard["seed"], shard["persona"], shard["index"]))
            cases = (gen_random(rnd, shard["persona"]) for _ in range(shard["count"]))
        for case in cases:
            try:
                if case["kind"] == "anim":
                    run_anim_case(case, env, res, tmpdir, state)
                else:
                    run_case(case, env, res, tmpdir, state)
            except Exception:
                res.violation("C03:exception", traceback.format_exc()[-1500:], case)
            if state["n"] % 40 == 0:
                for f in os.listdir(tmpdir):
                    try:
                        os.remove(os.path.join(tmpdir, f))
                    except OSError:
                        pass
            if res.too_many():
                break
    finally:
        shutil.rmtree(tmpdir, ignore_errors=True)
    return res.as_dict()
