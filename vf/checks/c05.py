"""C05 -- padding and alignment place the render exactly (DESIGN.md 3/C05)."""

from __future__ import annotations

import random
import traceback

from ..common import Result, make_image
from ..env import vt_personality
from ..models import padding as model
from ..vterm import SENT, VTerm

ID = "C05"
LEVEL = "exploration"
NEEDS_PTY = True
RULE = (
    "inner renders (synthetic text / SGR text / ECH+CUF graphics fills / cursor-forward-only, and real block, "
    "kitty, iterm2 renders) x every alignment pair x fill in {' ', other, ''} x absolute/zero/negative minimum "
    "sizes x exact margins 0..6 x terminal sizes, through all four surfaces (Padding.pad, Renderable.render, "
    "RenderIterator frames, format()/_format_render, and old-API draw() of stills and animations judged by the "
    "final screen of the byte stream); plus the complete grid render 1..4 x minimum 1..7 x 9 "
    "alignments x 3 fills; non-trivial = padded output executed and compared with the inner render executed "
    "alone; distinct = (surface, kind, render size, padding descriptor) tuples"
)
ASSUMPTIONS = [
    "VTerm differential: the padded output and the un-padded render are executed on two reference terminals "
    "and compared cell by cell / placement by placement",
    "CENTER/MIDDLE: the side receiving the odd cell is not specified; |before-after| <= 1 is accepted",
    "fill characters are restricted to one-column strings (single glyphs, and base characters with combining marks)",
]
PERSONAS = ["other", "kitty-0.32", "konsole", "wezterm", "iterm2"]
SIZES = {"quick": 500, "thorough": 40000}
MIN_EVENTS = {"padded outputs executed": {"quick": 4000, "thorough": 40000}}


def plan(tier, seed):
    shards = [dict(persona="other", kind="grid", seed=seed, index=0)]
    for p in PERSONAS:
        for i in range(2 if tier == "quick" else 3):
            shards.append(dict(persona=p, kind="random", seed=seed, index=i, count=SIZES[tier]))
    return shards


def _img_view(vt, cell):
    """An image cell by the pixels it shows (not by the image number of this terminal)."""
    if cell[0] == "\x00img":
        im = vt.images.get(cell[1])
        return ("img", im[2] if im else None, cell[2])
    return cell[:3]


def check_padded(padded, inner, rsize, dims, fill, personality, label, slack=(2, 3), stream=False):
    """Executes both; returns list of errors.  stream=True: *padded* is what a draw() call
    wrote to the terminal (raw line discipline already applied, possibly several frames
    drawn over each other, a final newline): the final screen is what is judged."""
    W, H = rsize
    left, top, right, bottom = dims
    PW, PH = left + W + right, top + H + bottom
    r0, c0 = slack[0] % 3, (0 if stream else slack[1] % 4)
    rows, cols = r0 + PH + 2, c0 + PW + 2
    a = VTerm(rows, cols, personality, cooked=not stream, margin=c0)
    a.r, a.c = r0, c0
    a.feed(padded)
    b = VTerm(rows, cols, personality, cooked=True, margin=c0 + left)
    b.r, b.c = r0 + top, c0 + left
    b.feed(inner)
    errs = []
    if not stream and (padded.count("\n") != PH - 1 or padded.endswith("\n")):
        errs.append(("newlines", padded.count("\n"), PH - 1))
    inner_rect = {(r, c) for r in range(r0 + top, r0 + top + H) for c in range(c0 + left, c0 + left + W)}
    box = {(r, c) for r in range(r0, r0 + PH) for c in range(c0, c0 + PW)}
    for r in range(rows):
        ra, rb = a.grid[r], b.grid[r]
        for c in range(cols):
            ca = ra[c]
            if (r, c) in inner_rect:
                # (what lies underneath an image cell differs when frames are drawn over
                # each other; the image and its offset are what counts)
                if (_img_view(a, ca) != _img_view(b, rb[c])) if stream else (ca != rb[c]):
                    errs.append(("inner-differs", (r - r0, c - c0), ca, rb[c]))
                    break
            elif (r, c) in box:
                if fill:
                    if ca != (fill, None, None):
                        errs.append(("padding-cell", (r - r0, c - c0), ca))
                        break
                elif ca != SENT or (r, c) in a.touched:
                    errs.append(("padding-cell-touched", (r - r0, c - c0), ca))
                    break
            elif ca != SENT or (r, c) in a.touched:
                errs.append(("outside-changed", (r - r0, c - c0), ca))
                break
        else:
            continue
        break
    if not stream and (a.touched & inner_rect) != (b.touched & inner_rect):
        errs.append(("inner-touched-differs",))
    if stream:
        # images on screen at the end: position, extent and pixels (z-index aside)
        pa = sorted({(p.row, p.col, p.c, p.r, p.digest) for p in a.placements})
        pb = sorted({(p.row, p.col, p.c, p.r, p.digest) for p in b.placements})
        if pa != pb:
            errs.append(("placements-differ", pa[:2], pb[:2]))
    elif a.placement_keys() != b.placement_keys():
        errs.append(("placements-differ", a.placement_keys()[:2], b.placement_keys()[:2]))
    ia = sorted((k, v[:3]) for k, v in a.images.items())
    ib = sorted((k, v[:3]) for k, v in b.images.items())
    if ia != ib and not stream:
        errs.append(("images-differ",))
    exp = (r0 + PH, 0) if stream else (r0 + PH - 1, min(c0 + PW, cols - 1))
    if (a.r, a.c) != exp:
        errs.append(("cursor", (a.r, a.c), exp))
    if a.scrolls or a.autowraps:
        errs.append(("scroll/wrap", a.scrolls, a.autowraps))
    if not a.sgr_default():
        errs.append(("sgr",))
    errs.extend(a.anomalies())
    return errs


def model_dims(pad_desc, rsize, term):
    """-> (PW, PH, constraint-checker) from the documentation model."""
    if pad_desc["type"] == "exact":
        l, t, r, b = pad_desc["dims"]
        return rsize[0] + l + r, rsize[1] + t + b, lambda d: tuple(d) == (l, t, r, b)
    PW, PH = model.aligned_box(rsize, (pad_desc["width"], pad_desc["height"]), term)

    def ok(d):
        l, t, r, b = d
        return (
            l + r == PW - rsize[0]
            and t + b == PH - rsize[1]
            and min(d) >= 0
            and model.side_ok(pad_desc["h"], l, r)
            and model.side_ok(pad_desc["v"], t, b)
        )

    return PW, PH, ok


def build_padding(pad_desc):
    from term_image.padding import AlignedPadding, ExactPadding, HAlign, VAlign

    if pad_desc["type"] == "exact":
        return ExactPadding(*pad_desc["dims"], pad_desc["fill"])
    return AlignedPadding(pad_desc["width"], pad_desc["height"], HAlign(pad_desc["h"]), VAlign(pad_desc["v"]), pad_desc["fill"])


def inner_render(case, env):
    """-> (render string, (W, H))"""
    from ..lib import style_classes
    from ..subjects import synth_render

    kind = case["kind"]
    W, H = case["rsize"]
    if kind in ("text", "sgr", "ech", "cuf"):
        return synth_render(kind, W, H, case.get("tag", 0)), (W, H), None
    cls = style_classes()[kind]
    rnd = random.Random(case["img_seed"])
    img = cls(make_image(rnd, rnd.randint(1, 12), rnd.randint(1, 12), "RGBA"), width=W, height=H)
    return None, (W, H), img


def run_case(case, env, res):
    import os

    from term_image.geometry import Size
    from term_image.padding import AlignedPadding, RelativePaddingDimensionError
    from term_image.render import RenderIterator

    from ..lib import set_terminal
    from ..subjects import Subj, synth_render

    term = tuple(case["term"])
    set_terminal(env, term[0], term[1], 4, 8)
    personality = vt_personality(env.persona_name)
    surface = case["surface"]
    pd = case["pad"]
    W, H = case["rsize"]
    rsize = (W, H)
    errs = []

    if surface == "format":
        # old API: format(image, '[h][w].[v][h]')
        inner, _, img = inner_render(case, env)
        spec = case["spec"]
        plain = format(img, "1.1" + case.get("style", ""))
        padded = format(img, spec + case.get("style", ""))
        pw, ph = case["fmt_dims"]
        PW, PH = model.aligned_box(rsize, (pw, ph), term)
        hal = {"<": 0, "|": 1, ">": 2, None: 1}[case["fmt_h"]]
        val = {"^": 0, "-": 1, "_": 2, None: 1}[case["fmt_v"]]
        # the side split is not observable from an API here; find it from the output by
        # trying the (at most 4) splits the model allows
        cands = []
        for l in range(PW - W + 1):
            r_ = PW - W - l
            if not model.side_ok(hal, l, r_):
                continue
            for t in range(PH - H + 1):
                b_ = PH - H - t
                if model.side_ok(val, t, b_):
                    cands.append((l, t, r_, b_))
        best = None
        for d in cands:
            e = check_padded(padded, plain, rsize, d, " ", personality, surface, (case["tag"], case["tag"] // 3))
            if best is None or len(e) < len(best):
                best = e
            if not e:
                break
        errs = best
        img.close()
        res.count("surface format()")
    else:
        padding = build_padding(pd)
        fill = pd["fill"]
        PW, PH, dims_ok = model_dims(pd, rsize, term)
        relative = pd["type"] == "aligned" and (pd["width"] <= 0 or pd["height"] <= 0)
        size = Size(W, H)
        if relative:
            # every method other than resolve() must refuse
            for fn in (lambda: padding.get_padded_size(size), lambda: padding.pad("x", Size(1, 1)), lambda: padding.to_exact(size)):
                try:
                    fn()
                    errs.append(("relative-not-rejected",))
                except RelativePaddingDimensionError:
                    pass
            if padding.relative is not True:
                errs.append(("relative-flag",))
            resolved = padding.resolve(os.terminal_size(term))
            if (resolved.width, resolved.height) != (model.absolute(pd["width"], term[0]), model.absolute(pd["height"], term[1])):
                errs.append(("resolve", (resolved.width, resolved.height)))
            if resolved.relative or (resolved.h_align, resolved.v_align, resolved.fill) != (padding.h_align, padding.v_align, padding.fill):
                errs.append(("resolve-fields",))
        else:
            resolved = padding
            if pd["type"] == "aligned" and padding.resolve(os.terminal_size(term)) is not padding and padding.resolve(os.terminal_size(term)) != padding:
                errs.append(("resolve-absolute-changed",))
        exact = resolved.to_exact(size)
        dims = tuple(exact.dimensions)
        if not dims_ok(dims):
            errs.append(("to_exact-dimensions", dims, (PW, PH)))
        if exact.fill != fill:
            errs.append(("to_exact-fill",))
        gps = tuple(resolved.get_padded_size(size))
        if gps != (PW, PH):
            errs.append(("get_padded_size", gps, (PW, PH)))
        if tuple(exact.get_padded_size(size)) != (PW, PH):
            errs.append(("exact.get_padded_size",))

        if surface == "pad":
            inner, _, img = inner_render(case, env)
            if img is not None:
                inner = format(img, "1.1")
                img.close()
            padded = resolved.pad(inner, size)
            if tuple(exact.dimensions) == dims and exact.pad(inner, size) != padded:
                errs.append(("to_exact-pad-differs",))
            res.count("surface Padding.pad")
        elif surface == "render":
            subj = Subj(1, 1, rsize, case["kind"])
            frame = subj.render(None, padding)  # relative paddings are resolved by the API
            inner = synth_render(case["kind"], W, H, 0)
            padded = frame.render_output
            if tuple(frame.render_size) != (PW, PH):
                errs.append(("frame.render_size", tuple(frame.render_size), (PW, PH)))
            res.count("surface Renderable.render")
        else:  # iterator
            # the padding / the render size reach the iterator through its constructor or
            # through its setters, in either order, before or after frames were produced
            route = case.get("route", "ctor")
            from term_image.geometry import Size as GSize
            from term_image.padding import ExactPadding as _EP

            other_size = (W % 5 + 1, H % 3 + 2)
            if route == "repad_cached" and min(dims) >= 0:
                # a whole loop is produced (and cached) under a twin of the padding: same
                # padded size, everything on the other sides, another fill; the padding
                # proper is set afterwards and applies to the (cached) frames from then on
                twin = _EP(0, 0, dims[0] + dims[2], dims[1] + dims[3], "#" if fill != "#" else "*")
                subj = Subj(3, 5, rsize, case["kind"])
                it = RenderIterator(subj, None, twin, -1, True)
                for _ in range(3 + case["tag"] % 2):
                    next(it)
                it.set_padding(padding)
                route = "repad_cached!"
            else:
                if route == "repad_cached":
                    route = "ctor"
                subj = Subj(6, 5, rsize if route in ("ctor", "pad_after") else other_size, case["kind"])
                it = RenderIterator(subj, None, padding if route in ("ctor", "size_after") else _EP(1, 0, 2, 1), -1, case["tag"] % 2 == 0)
            k = case["tag"] % 3 if route != "repad_cached!" else 0
            frame = None
            if route == "pad_then_size":
                it.set_padding(padding)
            for _ in range(k):
                next(it)
            if route in ("size_after", "pad_then_size"):
                it.set_render_size(GSize(W, H))
            elif route == "pad_after":
                it.set_padding(padding)
            frame = next(it)
            it.close()
            res.count("iterator route " + route)
            inner = synth_render(case["kind"], W, H, frame.number * 3)
            padded = frame.render_output
            if tuple(frame.render_size) != (PW, PH):
                errs.append(("frame.render_size", tuple(frame.render_size), (PW, PH)))
            res.count("surface RenderIterator")
        if min(dims) >= 0 and sum(dims[::2]) == PW - W and sum(dims[1::2]) == PH - H:
            errs += check_padded(padded, inner, rsize, dims, fill, personality, surface, (case["tag"], case["tag"] // 3))
        # "padding no larger than the render on an axis has no effect on that axis"
        if (PW, PH) == (W, H) and padded != inner:
            errs.append(("no-effect-violated",))

    res.count("padded outputs executed")
    res.case((surface, case["kind"], W, H, str(pd) if surface != "format" else case["spec"], term if (surface == "format" or (pd["type"] == "aligned" and (pd["width"] <= 0 or pd["height"] <= 0))) else 0))
    res.sample(case)
    if errs:
        res.violation("C05:%s:%s" % (surface, errs[0][0]), "%s %s render %s pad %s term %s: %r" % (surface, case["kind"], rsize, pd if surface != "format" else case["spec"], term, errs[:4]), case)


def run_format_history(case, env, res):
    """One image instance formatted repeatedly while the terminal / cell ratio change in
    between (dynamic and fixed sizes): every formatted output is judged on its own."""
    import term_image
    from term_image.image import Size

    from ..lib import set_terminal, style_classes

    rnd = random.Random(case["img_seed"])
    personality = vt_personality(env.persona_name)
    cls = style_classes()[case["kind"]]
    set_terminal(env, *case["steps"][0]["term"], 4, 8)
    pil = make_image(rnd, case["src"][0], case["src"][1], "RGBA")
    img = cls(pil, **case["size_kw"])
    # the un-padded reference render comes from a second instance, so that the history of
    # the instance under observation consists of the padded formats only
    ref = cls(pil, **case["size_kw"])
    if case.get("size_enum"):
        img.size = ref.size = getattr(Size, case["size_enum"])
    style = case.get("style", "")
    try:
        for i, st in enumerate(case["steps"]):
            set_terminal(env, *st["term"], 4, 8)
            term_image.set_cell_ratio(st["ratio"])
            term = tuple(st["term"])
            spec = st["spec"]
            W, H = ref.rendered_size
            plain = format(ref, "1.1" + style)
            padded = format(img, spec + style)
            pw, ph = st["fmt_dims"]
            PW, PH = model.aligned_box((W, H), (pw, ph), term)
            hal = {"<": 0, "|": 1, ">": 2, None: 1}[st["fmt_h"]]
            val = {"^": 0, "-": 1, "_": 2, None: 1}[st["fmt_v"]]
            best = None
            for l in range(PW - W + 1):
                r_ = PW - W - l
                if not model.side_ok(hal, l, r_):
                    continue
                for t in range(PH - H + 1):
                    b_ = PH - H - t
                    if not model.side_ok(val, t, b_):
                        continue
                    e = check_padded(padded, plain, (W, H), (l, t, r_, b_), " ", personality, "format-history", (i, i + 1))
                    if best is None or len(e) < len(best):
                        best = e
                    if not e:
                        break
                if best == []:
                    break
            res.count("padded outputs executed")
            res.count("surface format() histories (same instance, resizes in between)")
            if best:
                res.violation("C05:format-history:%s" % best[0][0], "%s image %s, step %d of %s: spec %r on terminal %s (rendered %dx%d): %r" % (case["kind"], case.get("size_enum") or case["size_kw"], i, [s_["spec"] + "@" + str(s_["term"]) for s_ in case["steps"]], spec, term, W, H, best[:3]), case)
                return
    finally:
        term_image.set_cell_ratio(0.5)
        img.close()
        ref.close()
    res.case(("format-history", case["kind"], str(case["steps"])))
    res.sample(case)


def run_draw(case, env, res):
    """draw() of the old API (stills and animations) with padding: what the call leaves on
    the terminal must be the un-padded render of the (last) frame at the aligned offset
    inside a blank box of exactly the padded size, with nothing outside it changed."""
    import os
    import sys
    import tempfile

    from .. import drawlib as dl
    from ..common import make_anim_file
    from ..lib import set_terminal, style_classes

    rnd = random.Random(case["img_seed"])
    personality = vt_personality(env.persona_name)
    cols, rows = case["term"]
    set_terminal(env, cols, rows, 4, 8)
    cls = style_classes()[case["kind"]]
    n = case["frames"]
    path = None
    if n > 1:
        fd, path = tempfile.mkstemp(suffix=".gif", dir="/var/tmp")
        os.close(fd)
        make_anim_file(rnd, path, case["src"][0], case["src"][1], n, "GIF")
        img, ref = cls.from_file(path, **case["size_kw"]), cls.from_file(path, **case["size_kw"])
    else:
        pil = make_image(rnd, case["src"][0], case["src"][1], "RGBA")
        img, ref = cls(pil, **case["size_kw"]), cls(pil, **case["size_kw"])
    try:
        W, H = ref.rendered_size
        pw, ph = case["fmt_dims"]
        term = (cols, rows)
        PW, PH = model.aligned_box((W, H), (pw, ph), term)
        if PW > cols or PH + 3 > rows:
            res.count("draws that would not fit without scrolling (skipped)")
            return
        env.take()
        tap = dl.TapOut(sys.stdout, mark=False)
        saved = sys.stdout
        sys.stdout = tap
        try:
            with dl.patched_time(dl.VirtualTime()):
                img.draw(case["fmt_h"], pw, case["fmt_v"], ph, animate=case["animate"], repeat=case["repeat"], cached=case["cached"], **(case.get("style_kw") or {}))
        finally:
            sys.stdout = saved
        data = env.take().decode("utf-8", "replace")
        animated = n > 1 and case["animate"]
        if animated:
            ref.seek(n - 1)
        plain = format(ref, "1.1" + case.get("style", ""))
        hal = {"<": 0, "|": 1, ">": 2, None: 1}[case["fmt_h"]]
        val = {"^": 0, "-": 1, "_": 2, None: 1}[case["fmt_v"]]
        best = None
        for l in range(PW - W + 1):
            r_ = PW - W - l
            if not model.side_ok(hal, l, r_):
                continue
            for t in range(PH - H + 1):
                b_ = PH - H - t
                if not model.side_ok(val, t, b_):
                    continue
                e = check_padded(data, plain, (W, H), (l, t, r_, b_), " ", personality, "draw", (case["r0"], 0), stream=True)
                if best is None or len(e) < len(best):
                    best = e
                if not e:
                    break
            if best == []:
                break
        res.count("padded outputs executed")
        res.count("surface draw() (%s)" % ("animation" if animated else "still"))
        res.case(("draw", case["kind"], W, H, pw, ph, case["fmt_h"], case["fmt_v"], n, term))
        if best:
            res.violation("C05:draw:%s" % best[0][0], "%s %s draw(%r, %r, %r, %r) of a %dx%d render (%d frame(s), repeat %d) on terminal %s: %r" % (case["kind"], "animated" if animated else "still", case["fmt_h"], pw, case["fmt_v"], ph, W, H, n, case["repeat"], term, best[:3]), case)
    finally:
        img.close()
        ref.close()
        if path:
            os.unlink(path)


def run_new_draw(case, env, res):
    """Renderable.draw(padding=...), stills and animations, on the pty: the screen at every
    flush must be one frame inside its padding (margins of an empty fill left untouched) --
    the observer is the one of C06, the cases are drawn for the padding's sake."""
    from . import c06

    sub = Result({})
    errs = c06.run_new(case, env, sub)
    res.count("surface Renderable.draw (%s)" % ("animation" if case["n"] != 1 and case["animate"] else "still"))
    res.count("frames observed at flush boundaries", sub.counters.get("frames observed at flush boundaries", 0))
    pd = case["pad"]
    res.case(("new-draw", case["kind"], tuple(case["size"]), str(pd), case["n"], case["loops"]))
    if errs:
        res.violation("C05:new-draw:%s" % errs[0][0], "Renderable.draw() %s render %s x%d frames pad %s term %s: %r" % (case["kind"], case["size"], case["n"] or 0, pd, case["term"], errs[:3]), case)


def gen_new_draw(rnd):
    cols, rows = rnd.randint(8, 40), rnd.randint(6, 14)
    W, H = rnd.randint(1, min(cols - 2, 8)), rnd.randint(1, min(rows - 3, 4))
    fill = rnd.choice(["", "", "", " ", "*"])
    if rnd.random() < 0.5:
        pad = dict(type="exact", dims=[rnd.randint(0, 3), rnd.randint(0, 2), rnd.randint(0, 3), rnd.randint(0, 2)], fill=fill)
    else:
        pad = dict(type="aligned", width=rnd.choice([rnd.randint(W, cols), 0, -rnd.randint(0, 3)]), height=rnd.choice([rnd.randint(H, rows - 1), -2, -rnd.randint(1, 4)]), h=rnd.randrange(3), v=rnd.randrange(3), fill=fill)
    return dict(surface="new-draw", api="new", term=[cols, rows], size=[W, H], kind=rnd.choice(["text", "sgr", "ech", "digits"]), animate=True, loops=rnd.choice([1, 2]), cache=rnd.choice([False, True]), check_size=True, allow_scroll=False, hide_cursor=rnd.random() < 0.8, echo_input=False, tty=True, r0f=rnd.choice([0, 0, 1000, rnd.randint(0, 1000)]), ki_sleep=None, n=rnd.choice([1, 2, 3, 4]), pad=pad)


def gen_draw(rnd, persona):
    pers = vt_personality(persona)
    kind = rnd.choice(["block", "block", "kitty", "iterm2"])
    frames = rnd.choice([1, 2, 3, 4])
    if kind == "kitty" and pers not in ("kitty", "konsole"):
        frames = 1  # kitty animations need a terminal that can clear frames
    h = rnd.choice([None, "<", "|", ">"])
    v = rnd.choice([None, "^", "-", "_"])
    case = dict(
        surface="draw", kind=kind, frames=frames, term=[rnd.randint(24, 60), rnd.randint(14, 30)], src=[rnd.randint(2, 12), rnd.randint(2, 12)], img_seed=rnd.getrandbits(32),
        size_kw=dict(width=rnd.randint(1, 8), height=rnd.randint(1, 5)) if rnd.random() < 0.7 else dict(width=rnd.randint(1, 8)),
        fmt_h=h, fmt_v=v, fmt_dims=[rnd.choice([0, rnd.randint(1, 24), 3]), rnd.choice([-2, rnd.randint(1, 10), 1, 2, 0, -rnd.randint(3, 20)])],
        animate=rnd.random() < 0.85, repeat=rnd.choice([1, 1, 2]), cached=rnd.choice([True, False]), r0=rnd.randint(0, 2),
    )
    if kind != "block" and rnd.random() < 0.5:
        m = rnd.choice(["L", "W"])
        case["style"] = "+" + m
        case["style_kw"] = dict(method={"L": "lines", "W": "whole"}[m])
    return case


def gen_format_history(rnd):
    def one_spec():
        h = rnd.choice([None, "<", "|", ">"])
        v = rnd.choice([None, "^", "-", "_"])
        pw = rnd.choice([None, 0, rnd.randint(1, 30), 70])
        ph = rnd.choice([None, 0, rnd.randint(1, 16), 32])
        spec = (h or "") + ("" if pw is None else str(pw))
        if v is not None or ph is not None:
            spec += "." + (v or "") + ("" if ph is None else str(ph))
        return dict(spec=spec, fmt_h=h, fmt_v=v, fmt_dims=[pw or 0, -2 if ph is None else ph])

    kind = rnd.choice(["block", "block", "kitty", "iterm2"])
    base = one_spec()
    steps = []
    for _ in range(rnd.randint(2, 5)):
        sp = base if rnd.random() < 0.6 else one_spec()
        steps.append(dict(sp, term=[rnd.choice([80, 40, 20, rnd.randint(4, 60)]), rnd.choice([30, 20, 10, rnd.randint(3, 30)])], ratio=rnd.choice([0.5, 0.5, 1.0, 0.25])))
    sizing = rnd.random()
    case = dict(surface="format-history", kind=kind, src=[rnd.randint(1, 300), rnd.randint(1, 200)], img_seed=rnd.getrandbits(32), steps=steps, size_kw={}, size_enum=None)
    if sizing < 0.6:
        case["size_enum"] = rnd.choice(["FIT", "FIT", "AUTO", "FIT_TO_WIDTH"])
    elif sizing < 0.8:
        case["size_kw"] = dict(width=rnd.randint(1, 8))
    else:
        case["size_kw"] = dict(width=rnd.randint(1, 8), height=rnd.randint(1, 5))
    if kind != "block":
        case["style"] = "+" + rnd.choice(["L", "W"])
    return case


def gen(rnd, persona):
    if rnd.random() < 0.12:
        return gen_format_history(rnd)
    if rnd.random() < 0.1:
        return gen_draw(rnd, persona)
    if rnd.random() < 0.08:
        return gen_new_draw(rnd)
    surface = rnd.choice(["pad", "pad", "render", "iterator", "format"])
    term = [rnd.randint(1, 60), rnd.randint(1, 30)]
    W, H = rnd.randint(1, 12), rnd.randint(1, 8)
    case = dict(surface=surface, term=term, rsize=[W, H], tag=rnd.randrange(1000), img_seed=rnd.getrandbits(32))
    if surface == "format":
        case["kind"] = rnd.choice(["block", "kitty", "iterm2"])
        h = rnd.choice([None, "<", "|", ">"])
        v = rnd.choice([None, "^", "-", "_"])
        pw = rnd.choice([None, 0, rnd.randint(1, 20)])
        ph = rnd.choice([None, 0, rnd.randint(1, 14)])
        spec = (h or "") + ("" if pw is None else str(pw))
        if v is not None or ph is not None:
            spec += "." + (v or "") + ("" if ph is None else str(ph))
        case.update(spec=spec, fmt_h=h, fmt_v=v, fmt_dims=[pw or 0, -2 if ph is None else ph], pad=None)
        if case["kind"] != "block":
            case["style"] = "+" + rnd.choice(["L", "W"])
        return case
    case["kind"] = rnd.choice(["text", "sgr", "ech", "cuf"] + (["block", "kitty", "iterm2"] if surface == "pad" else []))
    # (one-column characters, including ones that are special to formatting mini-languages)
    # (one-column fills of more than one code point too: a base character with combining marks)
    fill = rnd.choice([" ", " ", "", "*", "█", "x", "{", "}", "%", "\\", "$", "e\u0301", "o\u0302\u0323"])
    if rnd.random() < 0.35:
        pad = dict(type="exact", dims=[rnd.randint(0, 6) for _ in range(4)], fill=fill)
    else:
        wd = rnd.choice([rnd.randint(1, 16), 0, -rnd.randint(1, 8), rnd.randint(1, 16)])
        hd = rnd.choice([rnd.randint(1, 10), 0, -rnd.randint(1, 6), rnd.randint(1, 10)])
        pad = dict(type="aligned", width=wd, height=hd, h=rnd.randrange(3), v=rnd.randrange(3), fill=fill)
    case["pad"] = pad
    if surface == "iterator":
        case["route"] = rnd.choice(["ctor", "size_after", "pad_after", "pad_then_size", "repad_cached"])
    return case


def gen_grid():
    for W in range(1, 5):
        for H in range(1, 5):
            for mw in range(1, 8):
                for mh in range(1, 8):
                    for h in range(3):
                        for v in range(3):
                            for fi, fill in enumerate((" ", "#", "")):
                                yield dict(
                                    surface="pad",
                                    term=[20, 10],
                                    rsize=[W, H],
                                    tag=W + H + mw + mh + h + v,
                                    img_seed=0,
                                    kind=("text", "sgr", "ech")[(W + mh + fi) % 3],
                                    pad=dict(type="aligned", width=mw, height=mh, h=h, v=v, fill=fill),
                                )


def run_shard(shard, env):
    from ..lib import setup_styles

    res = Result(shard)
    setup_styles(env)
    if "replay" in shard:
        cases = [shard["replay"]]
    elif shard["kind"] == "grid":
        cases = gen_grid()
    else:
        rnd = random.Random("%s/%s/%s" % (shard["seed"], shard["persona"], shard["index"]))

        def with_twins():
            # a terminal-relative padding is followed, now and then, by its near twin on the
            # same terminal: one relative dimension off by one (-1 <-> -2, -5 <-> -6, 0 <-> -1)
            for _ in range(shard["count"]):
                case = gen(rnd, shard["persona"])
                yield case
                pd = case.get("pad")
                if pd and pd.get("type") == "aligned" and (pd["width"] <= 0 or pd["height"] <= 0) and rnd.random() < 0.5:
                    twin = dict(case, pad=dict(pd))
                    key = rnd.choice([k for k in ("width", "height") if pd[k] <= 0])
                    twin["pad"][key] = pd[key] - 1 if pd[key] % 2 else pd[key] + 1 if pd[key] < 0 else -1
                    yield twin

        cases = with_twins()
    for case in cases:
        try:
            if case["surface"] == "format-history":
                run_format_history(case, env, res)
            elif case["surface"] == "draw":
                run_draw(case, env, res)
            elif case["surface"] == "new-draw":
                run_new_draw(case, env, res)
            else:
                run_case(case, env, res)
        except Exception as e:
            res.violation("C05:exception:" + type(e).__name__, traceback.format_exc()[-1500:], case)
        if res.too_many():
            break
    return res.as_dict()
