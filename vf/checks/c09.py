"""C09 -- frame caching is invisible except for speed."""

from __future__ import annotations

import os
import random
import shutil
import tempfile
import traceback

from .. import iterhist as ih
from ..common import Result, make_anim_file

ID = "C09"
LEVEL = "exploration"
NEEDS_PTY = True
N_PAIRS = {"quick": 1200, "thorough": 120000}
N_IMG = {"quick": 60, "thorough": 10000}
RULE = (
    "paired iterators over the same configuration and operation history, one with caching enabled and one with "
    "caching disabled: RenderIterator (C08's history generator, loops >= 2 or infinite, cache limits around the "
    "frame count) and ImageIterator (generated 2..5-frame GIF/WebP/APNG files, repeat 2..3/-1, format specs, "
    "seek, image.set_size / size= / terminal resize between steps); every step's observation must be identical, "
    "and with caching on a frame is rendered at most once per settings epoch; distinct = distinct (configuration, "
    "history) pairs"
)
ASSUMPTIONS = [
    "animated PNG sources are not used here: Pillow 11.1's APNG plugin fails on seek(0) followed by seek(1) "
    "('APNG contains frame sequence errors'), which only the un-cached iterator (that re-seeks) runs into",
    "differential oracle: the un-cached iterator is the specification of the cached one (C08 decides the un-cached "
    "behaviour itself)",
    "settings epoch = maximal run of steps in which render size, frame duration and render arguments keep their "
    "values (padding is applied after caching and does not start a new epoch)",
]
MIN_EVENTS = {"paired steps compared": {"quick": 100000, "thorough": 1000000}, "cached frames served without rendering": {"quick": 5000, "thorough": 50000}}
SHARDS = 16


def plan(tier, seed):
    return [dict(persona=("other", "konsole")[i % 2], seed=seed, index=i, pairs=N_PAIRS[tier], imgs=N_IMG[tier], winsize=[30, 12, 240, 192]) for i in range(SHARDS)]


def caching_enabled(cfg, cache):
    if cfg.get("indef_len") is not None:
        return False
    return cache if isinstance(cache, bool) else cfg["n"] <= cache


def run_pair(cfg, ops, env, res):
    env.set_winsize(30, 12)
    sa, sb = ih.make_subject(cfg), ih.make_subject(cfg)
    cache_on = cfg["cache_on"]
    a = ih.make_iterator(sa, cfg, cache=cache_on)
    b = ih.make_iterator(sb, cfg, cache=False)
    enabled = caching_enabled(cfg, cache_on)
    epoch = 0
    settings = (tuple(cfg["size0"]), cfg["dur0"], cfg.get("tag0", 0))
    rendered = {}
    for i, op in enumerate(ops):
        n0 = len(sa.log)
        ga = ih.apply_real(a, op, env)
        gb = ih.apply_real(b, op, env)
        res.count("paired steps compared")
        if ga != gb:
            return "step %d %r: cached iterator %r, un-cached %r" % (i, op, _short(ga), _short(gb))
        if a.loop != b.loop:
            return "step %d %r: loop countdown cached %r, un-cached %r" % (i, op, a.loop, b.loop)
        if ga == ("ok",) and op[0] in ("size", "dur", "args", "args_base"):
            new = (
                (op[1], op[2]) if op[0] == "size" else settings[0],
                op[1] if op[0] == "dur" else settings[1],
                (op[1] if op[0] == "args" else 0) if op[0] in ("args", "args_base") else settings[2],
            )
            if new != settings:
                settings = new
                epoch += 1
        if op[0] == "next" and ga[0] == "frame":
            if enabled:
                if len(sa.log) > n0:
                    k = (epoch, ga[1])
                    rendered[k] = rendered.get(k, 0) + 1
                    if rendered[k] > 1:
                        return "step %d: frame %d rendered a second time although cached and settings unchanged (epoch %d)" % (i, ga[1], epoch)
                else:
                    res.count("cached frames served without rendering")
            elif len(sa.log) == n0:
                return "step %d: a frame was produced without rendering although caching is disabled" % i
    a.close()
    b.close()
    return None


def _short(obs):
    return tuple((o[:40] + "..") if isinstance(o, str) and len(o) > 42 else o for o in obs)


# ----------------------------------------------------------------------------- images


def img_apply(it, image, op, env):
    from term_image.exceptions import TermImageError
    from term_image.image import Size

    try:
        if op[0] == "next":
            try:
                return ("frame", next(it), image.tell())
            except StopIteration:
                return ("stop", image.tell())
        if op[0] == "seek":
            it.seek(op[1])
        elif op[0] == "set_size":
            image.set_size(**op[1])
        elif op[0] == "size_enum":
            image.size = getattr(Size, op[1])
        elif op[0] == "close":
            it.close()
        return ("ok", it.loop_no)
    except TermImageError as e:
        return ("err", "TermImageError")
    except ValueError:
        return ("err", "ValueError")
    except TypeError:
        return ("err", "TypeError")


def run_image_pair(case, env, res, tmpdir):
    from term_image.image import ImageIterator

    from ..lib import set_terminal, style_classes

    rnd = random.Random(case["seed"])
    cls = style_classes()[case["style"]]
    path = os.path.join(tmpdir, "c09-%d.%s" % (case["seed"] % 100000, case["fmt"].lower()))
    make_anim_file(rnd, path, case["src"][0], case["src"][1], case["frames"], case["fmt"])
    set_terminal(env, 30, 12, 4, 8)
    ia, ib = cls.from_file(path, **case["size_kw"]), cls.from_file(path, **case["size_kw"])
    try:
        a = ImageIterator(ia, case["repeat"], case["spec"], True)
        b = ImageIterator(ib, case["repeat"], case["spec"], False)
        for i, op in enumerate(case["ops"]):
            if op[0] == "resize":
                set_terminal(env, op[1], op[2], 4, 8)
                continue
            ga = img_apply(a, ia, op, env)
            gb = img_apply(b, ib, op, env)
            res.count("paired steps compared")
            res.count("image iterator steps")
            if ga != gb:
                return "step %d %r: cached ImageIterator %r, un-cached %r" % (i, op, _short(ga), _short(gb))
        a.close()
        b.close()
    finally:
        ia.close()
        ib.close()
        try:
            os.remove(path)
        except OSError:
            pass
    return None


def gen_image_case(rnd):
    style = rnd.choice(["block", "block", "kitty", "iterm2"])
    frames = rnd.randint(2, 5)
    spec = rnd.choice(["", "1.1", "<8.^4", "1.1#", "1.1##"]) + ("" if style == "block" else rnd.choice(["", "+W", "+L"]))
    if style == "block" and "+" in spec:
        spec = spec.split("+")[0]
    size_kw = rnd.choice([dict(width=3, height=2), dict(width=4), dict(), dict(height=2)])
    ops = []
    for _ in range(rnd.randint(3, 30)):
        r = rnd.random()
        if r < 0.6:
            ops.append(["next"])
        elif r < 0.75:
            ops.append(["seek", rnd.choice([0, frames - 1, rnd.randrange(frames), frames, -1])])
        elif r < 0.83:
            ops.append(["set_size", rnd.choice([dict(width=rnd.randint(1, 5), height=rnd.randint(1, 3)), dict(width=rnd.randint(1, 6)), dict(height=rnd.randint(1, 3))])])
        elif r < 0.90:
            ops.append(["size_enum", rnd.choice(["FIT", "AUTO", "ORIGINAL", "FIT_TO_WIDTH"])])
        elif r < 0.96:
            ops.append(["resize", rnd.randint(6, 30), rnd.randint(4, 12)])
        else:
            ops.append(["close"])
    return dict(kind="image", style=style, frames=frames, fmt=rnd.choice(["GIF", "GIF", "WEBP"]), src=[rnd.randint(2, 10), rnd.randint(2, 10)], repeat=rnd.choice([2, 3, -1]), spec=spec, size_kw=size_kw, ops=ops, seed=rnd.getrandbits(32))


def run_shard(shard, env):
    from ..lib import setup_styles

    res = Result(shard)
    setup_styles(env)
    tmpdir = tempfile.mkdtemp(prefix="vf-c09-")
    try:
        if "replay" in shard:
            c = shard["replay"]
            msg = run_image_pair(c, env, res, tmpdir) if c.get("kind") == "image" else run_pair(c["cfg"], c["ops"], env, res)
            res.case(str(c))
            if msg:
                res.violation("C09:replay", msg, c)
            return res.as_dict()
        rnd = random.Random("%s/c09/%s" % (shard["seed"], shard["index"]))
        for _ in range(shard["pairs"]):
            cfg = ih.gen_config(rnd, definite=rnd.random() < 0.9)
            cfg.pop("reuse", None)  # (render-data reuse is C08's subject; here renders are counted per iterator)
            cfg["loops"] = rnd.choice([2, 3, -1, -1, 1])
            n = cfg["n"] or 3
            cfg["cache_on"] = rnd.choice([True, True, n, n + 1, 100, n - 1])
            ops = [ih.gen_op(rnd, cfg) for _ in range(rnd.randint(2, 60))]
            # keep iterators alive longer: fewer closes
            ops = [o for o in ops if o[0] != "close" or rnd.random() < 0.2]
            msg = run_pair(cfg, ops, env, res)
            res.case((cfg, ops))
            if msg:
                key = "C09:render-iterator:" + ("rerender" if "second time" in msg else "differs")
                res.violation(key, msg + " [cfg %s]" % cfg, dict(cfg=cfg, ops=ops))
                if res.too_many():
                    break
            elif len(res.samples) < 1:
                res.sample(dict(cfg=cfg, ops=ops[:10]))
        for _ in range(shard["imgs"]):
            case = gen_image_case(rnd)
            try:
                msg = run_image_pair(case, env, res, tmpdir)
            except Exception:
                msg = "exception: " + traceback.format_exc()[-1200:]
            res.case(case)
            res.count("image iterator pairs")
            if msg:
                res.violation("C09:image-iterator:" + ("exception" if msg.startswith("exception") else "differs"), msg + " [%s %s repeat=%s spec=%r]" % (case["style"], case["fmt"], case["repeat"], case["spec"]), case)
                if res.too_many():
                    break
            elif len(res.samples) < 2:
                res.sample({k: case[k] for k in ("style", "frames", "fmt", "repeat", "spec", "size_kw")} | {"ops": case["ops"][:10]})
    except Exception:
        res.inconclusive.append(traceback.format_exc()[-2000:])
    finally:
        shutil.rmtree(tmpdir, ignore_errors=True)
    return res.as_dict()
