"""C16 -- render-argument sets obey their precedence, compatibility and immutability laws."""

from __future__ import annotations

import random
import traceback

from ..common import Result

ID = "C16"
LEVEL = "exploration"
NEEDS_PTY = False
RULE = (
    "generated programs: render-class trees (depth <= 4, branching <= 3), random owners of argument namespaces with "
    "1..3 fields; pools of objects evolved by random constructor / update / convert / | / + / to_render_args / "
    "namespace.update calls biased toward default-valued arguments (interning shortcuts); after every operation "
    "the result is compared with the documentation model (last given, else init's, else default), acceptance and "
    "error type with the ancestry rule, eq/hash on random pairs, and deep snapshots of ALL pre-existing objects "
    "(incl. interned defaults and cls._ALL_DEFAULT_ARGS); plus malformed namespace class definitions; "
    "distinct = distinct (tree shape, operation sequence) pairs"
)
ASSUMPTIONS = [
    "model (in this file, `model_*` functions) is written from the RenderArgs / ArgsNamespace docstrings: "
    "precedence = last namespace given for a class, else the initial set's, else the class default; compatible = "
    "associated with the target class or one of its ancestors",
    "namespace classes are associated before their render class is subclassed or used (as the documentation requires)",
]
N_TREES = {"quick": 40, "thorough": 1500}
MIN_EVENTS = {"operations compared with the model": {"quick": 20000, "thorough": 200000}}
SHARDS = 16


def plan(tier, seed):
    return [dict(seed=seed, index=i, trees=N_TREES[tier]) for i in range(SHARDS)]


_uid = [0]


def mktree(rnd):
    from term_image.renderable import ArgsNamespace, Renderable

    classes = [Renderable]
    owners = {}
    depth = {Renderable: 0}
    children = {Renderable: 0}
    n = rnd.randint(2, 9)
    shape = []
    while len(classes) - 1 < n:
        parent = rnd.choice(classes)
        if depth[parent] >= 4 or children[parent] >= 3:
            continue
        _uid[0] += 1
        uid = _uid[0]
        cls = type("R%d" % uid, (parent,), {"_get_render_size_": lambda s: None, "_render_": lambda s, d, a: None})
        depth[cls] = depth[parent] + 1
        children[cls] = 0
        children[parent] += 1
        own = rnd.random() < 0.6
        nf = 0
        if own:
            nf = rnd.randint(1, 3)
            ns = {"__annotations__": {"f%d" % j: int for j in range(nf)}, **{"f%d" % j: j for j in range(nf)}}
            owners[cls] = type(ArgsNamespace)("A%d" % uid, (ArgsNamespace,), ns, render_cls=cls)
        classes.append(cls)
        shape.append((classes.index(parent), nf))
    return classes[1:], owners, tuple(shape)


def run_tree(rnd, res, steps, tseed=None):
    from term_image.renderable import (
        ArgsNamespace,
        IncompatibleArgsNamespaceError,
        IncompatibleRenderArgsError,
        NoArgsNamespaceError,
        RenderArgs,
        Renderable,
        UnknownArgsFieldError,
    )

    classes, owners, shape = mktree(rnd)
    if not owners:
        return None

    def anc(cls):
        return [c for c in cls.__mro__ if isinstance(c, type(Renderable))]

    def fields(ns):
        return tuple(ns.as_dict().items())

    def defaults(cls):
        return {c: tuple(owners[c].get_fields().items()) for c in anc(cls) if c in owners}

    def model_of(o):
        return {c: fields(ns) for c, ns in o._namespaces.items()}

    def snapshot(o):
        return (o.render_cls, tuple((c, fields(ns), id(ns)) for c, ns in o._namespaces.items()))

    tuned = {}

    def rand_ns(bias_default=0.5):
        c = rnd.choice(list(owners))
        A = owners[c]
        if rnd.random() < 0.2:
            # a namespace class that inherits fields and association from the class's own
            # (the documented way to add behaviour to a namespace): same values, same set
            if c not in tuned:
                tuned[c] = type("T" + A.__name__, (A,), {})
            A = tuned[c]
        r = rnd.random()
        if r < 0.15:
            # the very object that is the class's shared default namespace
            holder = rnd.choice([k for k in classes if c in k.__mro__])
            return RenderArgs(holder)[c]
        if r < 0.3 and pool:
            # a namespace object that already lives inside another set
            o, _ = rnd.choice(pool)
            if o._namespaces:
                return rnd.choice(list(o._namespaces.values()))
        if rnd.random() < bias_default:
            return A()  # all defaults: exercises the interning shortcuts
        return A(**{f: rnd.choice([v, v, 7, 9]) for f, v in A.get_fields().items()})

    pool = []  # (object, model dict)
    ops = []

    def fail(key, msg):
        res.violation("C16:" + key, "%s; tree=%s ops=%s" % (msg, shape, ops[-12:]), dict(tree_seed=tseed, steps=steps, shape=shape, ops=ops[:]))

    for step in range(steps):
        snaps = [(o, snapshot(o)) for o, _ in pool]
        dsnaps = {c: (snapshot(RenderArgs(c)), {k: fields(v) for k, v in c._ALL_DEFAULT_ARGS.items()}) for c in classes}
        ns_snaps = []
        op = rnd.choice(["new", "new", "new", "update", "update_fields", "convert", "or", "or_ns", "pos", "to_render_args", "ns_update", "getitem"])
        ops.append(op)
        o2 = m2 = None
        if op == "new":
            cls = rnd.choice(classes)
            init = rnd.choice([None] + [o for o, _ in pool] + [RenderArgs(rnd.choice(classes))]) if rnd.random() < 0.7 else None
            nss = [rand_ns() for _ in range(rnd.randint(0, 3))]
            ns_snaps = [(n_, fields(n_)) for n_ in nss]
            err = None
            m = defaults(cls)
            if init is not None:
                if not issubclass(cls, init.render_cls):
                    err = IncompatibleRenderArgsError
                else:
                    m.update(model_of(init))
            if err is None:
                for ns in nss:
                    if ns.get_render_cls() not in m:
                        err = IncompatibleArgsNamespaceError
                        break
                    m[ns.get_render_cls()] = fields(ns)
            try:
                o2 = RenderArgs(cls, *([init] if init is not None else []), *nss)
                got = None
            except (IncompatibleRenderArgsError, IncompatibleArgsNamespaceError) as e:
                got = type(e)
            if got != err:
                fail("acceptance", "RenderArgs(%s, init=%s, %d ns): got %s, documented %s" % (cls.__name__, init and init.render_cls.__name__, len(nss), got, err))
                return shape
            if err is None:
                m2 = m
                if o2.render_cls is not cls:
                    fail("render_cls", "constructed render_cls is %s not %s" % (o2.render_cls, cls))
        elif op == "update" and pool:
            o, m = rnd.choice(pool)
            nss = [rand_ns() for _ in range(rnd.randint(1, 2))]
            err = None
            m2 = dict(m)
            for ns in nss:
                if ns.get_render_cls() not in m2:
                    err = IncompatibleArgsNamespaceError
                    break
                m2[ns.get_render_cls()] = fields(ns)
            try:
                o2 = o.update(*nss)
                got = None
            except IncompatibleArgsNamespaceError as e:
                got = type(e)
            if got != err:
                fail("acceptance", "update(): got %s, documented %s" % (got, err))
                return shape
            if err is not None:
                m2 = None
        elif op == "update_fields" and pool:
            o, m = rnd.choice(pool)
            c = rnd.choice(classes)
            if c in m:
                names = [k for k, _ in m[c]]
                chosen = rnd.sample(names, rnd.randint(1, len(names)))
                if rnd.random() < 0.15:
                    chosen.append("nope")
                kw = {fname: rnd.choice([7, 9, dict(m[c]).get(fname, 0)]) for fname in chosen}
                try:
                    o2 = o.update(c, **kw)
                    got = None
                except UnknownArgsFieldError:
                    got = UnknownArgsFieldError
                if ("nope" in kw) != (got is not None):
                    fail("unknown-field", "update(%s, %s) -> %s" % (c.__name__, kw, got))
                    return shape
                if got is None:
                    m2 = dict(m)
                    m2[c] = tuple((k, kw.get(k, v)) for k, v in m[c])
            else:
                try:
                    o.update(c, f0=1)
                    fail("acceptance", "update(<class without/outside namespace>) accepted")
                    return shape
                except (NoArgsNamespaceError, ValueError):
                    pass
        elif op == "convert" and pool:
            o, m = rnd.choice(pool)
            cls = rnd.choice(classes + [o.render_cls])
            if issubclass(cls, o.render_cls):
                m2 = {**defaults(cls), **m}
                err = None
            elif issubclass(o.render_cls, cls):
                m2 = {c: v for c, v in m.items() if c in defaults(cls)}
                err = None
            else:
                err = ValueError
                m2 = None
            try:
                o2 = o.convert(cls)
                got = None
            except ValueError:
                got = ValueError
            if got != err:
                fail("acceptance", "convert(): got %s, documented %s" % (got, err))
                return shape
            if err is None and o2.render_cls is not cls:
                fail("render_cls", "convert() render_cls")
        elif op in ("or", "or_ns") and pool:
            ns = rand_ns()
            c = ns.get_render_cls()
            left = rnd.random() < 0.5
            if op == "or":
                o, m = rnd.choice(pool)
                oc = o.render_cls
            else:
                o = rand_ns()
                oc = o.get_render_cls()
                m = {**defaults(oc), oc: fields(o)}
            if issubclass(c, oc):
                tgt = c
            elif issubclass(oc, c):
                tgt = oc
            else:
                tgt = None
            try:
                o2 = (ns | o) if left else (o | ns)
                got = None
            except (IncompatibleRenderArgsError, IncompatibleArgsNamespaceError) as e:
                got = type(e)
            if (tgt is None) != (got is not None):
                fail("acceptance", "'|' of %s and %s: got %s" % (c.__name__, oc.__name__, got))
                return shape
            if tgt is not None:
                m2 = {**defaults(tgt), **m}
                if op == "or_ns" and c is oc:
                    # same class: the right operand wins
                    m2[c] = fields(o) if left else fields(ns)
                else:
                    m2[c] = fields(ns)
                if o2.render_cls is not tgt:
                    fail("render_cls", "'|' render_cls is %s, expected %s" % (o2.render_cls.__name__, tgt.__name__))
        elif op == "pos":
            ns = rand_ns()
            o2 = +ns
            c = ns.get_render_cls()
            m2 = {**defaults(c), c: fields(ns)}
        elif op == "to_render_args":
            ns = rand_ns()
            c = ns.get_render_cls()
            tgt = rnd.choice([None] + classes)
            ok = tgt is None or issubclass(tgt, c)
            try:
                o2 = ns.to_render_args(tgt)
                got = None
            except IncompatibleArgsNamespaceError as e:
                got = type(e)
            if ok != (got is None):
                fail("acceptance", "to_render_args(%s) for ns of %s: %s" % (tgt, c.__name__, got))
                return shape
            if ok:
                m2 = {**defaults(tgt or c), c: fields(ns)}
        elif op == "ns_update":
            ns = rand_ns()
            before = fields(ns)
            names = list(ns.get_fields())
            chosen = rnd.sample(names, rnd.randint(1, len(names)))
            f = chosen[0]
            ns2 = ns.update(**{k: 9 for k in chosen})
            if fields(ns) != before:
                fail("mutated-namespace", "ArgsNamespace.update mutated the receiver")
            if any(dict(fields(ns2))[k] != 9 for k in chosen) or type(ns2) is not type(ns):
                fail("ns-update-value", "ArgsNamespace.update result wrong")
            try:
                ns.f0 = 5
                fail("mutable-namespace", "namespace field assignment accepted")
            except AttributeError:
                pass
            if (ns == ns2) != (fields(ns) == fields(ns2)) or (ns == ns2 and hash(ns) != hash(ns2)):
                fail("ns-eq-hash", "namespace eq/hash")
        elif op == "getitem" and pool:
            o, m = rnd.choice(pool)
            c = rnd.choice(classes)
            try:
                got = fields(o[c])
            except NoArgsNamespaceError:
                got = "noargs"
            except ValueError:
                got = "value"
            exp = m[c] if c in m else ("noargs" if issubclass(o.render_cls, c) else "value")
            if got != exp:
                fail("getitem", "render_args[%s] -> %r, expected %r" % (c.__name__, got, exp))
        res.count("operations compared with the model")
        res.count("op " + op)
        if m2 is not None and o2 is not None:
            if model_of(o2) != m2:
                fail("precedence", "%s: namespaces %r, model %r" % (op, {k.__name__: v for k, v in model_of(o2).items()}, {k.__name__: v for k, v in m2.items()}))
                return shape
            pool.append((o2, m2))
            if all(v == defaults(o2.render_cls).get(k) for k, v in m2.items()):
                res.count("results equal to the class default set")
                if o2 != RenderArgs(o2.render_cls) or hash(o2) != hash(RenderArgs(o2.render_cls)):
                    fail("eq-hash-default", "all-default result not equal/hash-equal to RenderArgs(cls)")
        for o, s in snaps:
            if snapshot(o) != s:
                fail("mutated-existing", "%s altered a pre-existing RenderArgs" % op)
                return shape
        for n_, f_ in ns_snaps:
            if fields(n_) != f_:
                fail("mutated-namespace", "%s altered an argument namespace" % op)
        for c, (s, alld) in dsnaps.items():
            if snapshot(RenderArgs(c)) != s or model_of(RenderArgs(c)) != defaults(c) or {k: fields(v) for k, v in c._ALL_DEFAULT_ARGS.items()} != alld:
                fail("mutated-default", "%s altered the shared default set of %s" % (op, c.__name__))
                return shape
        if len(pool) >= 2:
            (a, ma), (b, mb) = rnd.sample(pool, 2)
            same = a.render_cls is b.render_cls and ma == mb
            if (a == b) != same:
                fail("eq", "== says %s, model says %s" % (a == b, same))
            if same and hash(a) != hash(b):
                fail("hash", "equal sets hash differently")
            res.count("eq/hash pairs")
    res.case((shape, tuple(ops)))
    return shape


def malformed(res):
    """Namespace classes must reject malformed definitions."""
    from term_image.renderable import ArgsNamespace, DataNamespace, Renderable, RenderArgsDataError, RenderArgsError

    _uid[0] += 1
    u = _uid[0]

    def mk():
        return type("M%d_%d" % (u, mk.n), (Renderable,), {"_get_render_size_": lambda s: None, "_render_": lambda s, d, a: None})

    mk.n = 0
    meta = type(ArgsNamespace)
    dmeta = type(DataNamespace)
    R1, R2 = mk(), mk()
    cases = []

    def expect(name, fn, excs):
        try:
            fn()
        except excs:
            res.count("malformed definitions rejected")
            return
        except Exception as e:
            res.violation("C16:malformed:" + name, "%s raised %s instead of %s" % (name, type(e).__name__, excs), dict(kind="malformed", name=name))
            return
        res.violation("C16:malformed:" + name, "%s accepted" % name, dict(kind="malformed", name=name))

    expect("field-without-default", lambda: meta("X", (ArgsNamespace,), {"__annotations__": {"a": int}}, render_cls=R1), RenderArgsError)
    A1 = meta("A", (ArgsNamespace,), {"__annotations__": {"a": int}, "a": 1}, render_cls=R1)
    expect("second-namespace-for-class", lambda: meta("B", (ArgsNamespace,), {"__annotations__": {"b": int}, "b": 1}, render_cls=R1), RenderArgsError)
    expect("re-association", lambda: meta("C", (A1,), {}, render_cls=R2), RenderArgsDataError)
    A2 = meta("A2", (ArgsNamespace,), {"__annotations__": {"z": int}, "z": 1}, render_cls=R2)
    expect("multiple-bases", lambda: meta("D", (A1, A2), {}), RenderArgsDataError)
    expect("inherit-and-define", lambda: meta("E", (A1,), {"__annotations__": {"q": int}, "q": 1}), RenderArgsDataError)
    expect("unassociated-with-fields", lambda: meta("F", (ArgsNamespace,), {"__annotations__": {"q": int}, "q": 1}), RenderArgsDataError)
    expect("associate-without-fields", lambda: meta("G", (ArgsNamespace,), {}, render_cls=mk()), RenderArgsDataError)
    expect("unknown-field", lambda: A1(nope=1), AttributeError)
    expect("unknown-field-update", lambda: A1().update(nope=1), AttributeError)
    expect("too-many-values", lambda: A1(1, 2), TypeError)
    expect("data-second-namespace", lambda: (dmeta("D1", (DataNamespace,), {"__annotations__": {"a": int}}, render_cls=R1), dmeta("D2", (DataNamespace,), {"__annotations__": {"b": int}}, render_cls=R1)), RenderArgsDataError)
    # a subclass of an associated namespace class stays associated with the same class
    S = meta("S", (A1,), {})
    if S.get_render_cls() is not R1 or S().a != 1:
        res.violation("C16:malformed:subclass", "namespace subclass lost its association", dict(kind="malformed", name="subclass"))


def run_shard(shard, env):
    res = Result(shard)
    rnd = random.Random("%s/c16/%s" % (shard.get("seed"), shard.get("index")))
    try:
        if "replay" in shard:
            c = shard["replay"]
            if c.get("kind") == "malformed":
                malformed(res)
            else:
                run_tree(random.Random(c["tree_seed"]), res, c["steps"], c["tree_seed"])
            return res.as_dict()
        for t in range(shard["trees"]):
            tseed = rnd.getrandbits(48)
            run_tree(random.Random(tseed), res, 150, tseed)
            if res.too_many():
                break
        for _ in range(5):
            malformed(res)
    except Exception:
        res.violation("C16:exception", traceback.format_exc()[-2000:], dict(shard=shard))
    res.sample(dict(note="tree shapes are (parent index, number of argument fields) lists", example=list(mktree(random.Random(1))[2])))
    return res.as_dict()
