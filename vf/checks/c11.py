"""C11 -- image iteration equals frame-by-frame rendering and leaks nothing."""

from __future__ import annotations

import gc
import io
import os
import random
import shutil
import tempfile
import threading
import traceback

from ..common import Result, make_anim_file, make_image
from ..env import vt_personality
from ..proto import ProtocolError, parse_iterm2

ID = "C11"
LEVEL = "exploration"
NEEDS_PTY = True
N_HIST = {"quick": 40, "thorough": 2000}
RULE = (
    "histories over sources {file path, PIL image, URL served by a loopback HTTP server incl. 404 and non-image "
    "bodies} x animated/still x frame count x repeat x format spec x cache x style: full and partial iteration "
    "compared frame by frame with formatting that frame directly, seek, tell() tracking, early close / "
    "abandonment, str/format/draw in between, image.close(); plus a failure injected at the k-th PIL "
    "convert / resize / save / tobytes / alpha_composite / getdata call for ALL k of a render or iteration; after "
    "each history: open-file census back to baseline, every image the library opened closed, the caller's image "
    "still open, URL temp file present exactly while the image is open; distinct = distinct (source kind, style, "
    "spec, history) tuples"
)
ASSUMPTIONS = [
    "a native-animation request (+A) falls back to one whole-image command per frame, compared semantically "
    "(decoded pixels at the transmitted resolution), not byte-wise with +W",
    "animated PNG sources are excluded from backward seeks (Pillow 11.1 APNG rewind bug)",
    "PIL methods are wrapped at class level to inject failures and Image.open is wrapped in the library's namespace "
    "to track the images it opens",
]
MIN_EVENTS = {"frames compared with direct formatting": {"quick": 3000, "thorough": 100000}, "resource audits": {"quick": 500, "thorough": 20000}}
SHARDS = 16
PERSONAS = ["other", "kitty-0.32", "konsole", "wezterm"]


def plan(tier, seed):
    return [dict(persona=PERSONAS[i % 4], seed=seed, index=i, hists=N_HIST[tier], winsize=[40, 14, 160, 112]) for i in range(SHARDS)]


# ----------------------------------------------------------------------------- instrumentation


class Opened:
    """Tracks PIL images opened by the library (Image.open in common's namespace), by weak
    reference: the monitor must not keep them alive itself."""

    def __init__(self):
        self.images = []
        self.count = 0

    def install(self):
        import weakref

        import term_image.image.common as common

        real = common.Image
        tracker = self

        class ImageProxy:
            def __getattr__(self, name):
                return getattr(real, name)

            @staticmethod
            def open(*a, **k):
                im = real.open(*a, **k)
                tracker.count += 1
                try:
                    im.fp.fileno()  # only images backed by a real file descriptor
                    tracker.images.append(weakref.ref(im))
                except Exception:
                    pass
                return im

        self._real = real
        common.Image = ImageProxy()
        self._common = common

    def uninstall(self):
        self._common.Image = self._real

    def unclosed(self):
        out = []
        for ref in self.images:
            im = ref()
            if im is None:
                continue
            fp = getattr(im, "fp", None)
            if fp is not None and not getattr(fp, "closed", True):
                out.append(im)
        return out

    def reset(self):
        del self.images[:]


class PilFaults:
    """Class-level wrappers around the PIL operations the library uses while rendering."""

    METHODS = ["convert", "resize", "save", "tobytes", "alpha_composite", "getdata", "putalpha", "getchannel"]

    def __init__(self):
        self.count = 0
        self.fail_at = None
        self.fired = False
        self.saved = {}

    def install(self):
        from PIL import Image

        for name in self.METHODS:
            real = getattr(Image.Image, name)
            self.saved[name] = real

            def make(real, name):
                def wrapper(im, *a, **k):
                    self.count += 1
                    if self.fail_at is not None and self.count == self.fail_at:
                        self.fired = True
                        raise OSError("injected failure in PIL %s" % name)
                    return real(im, *a, **k)

                return wrapper

            setattr(Image.Image, name, make(real, name))

    def uninstall(self):
        from PIL import Image

        for name, real in self.saved.items():
            setattr(Image.Image, name, real)

    def arm(self, k):
        self.count = 0
        self.fail_at = k
        self.fired = False


class Server:
    """Loopback HTTP server in a separate process (vf/httpd.py): /img/<name> serves a
    file, /text a non-image body, anything else 404."""

    def __init__(self, root):
        import subprocess
        import sys

        self.proc = subprocess.Popen(
            [sys.executable, "-B", "-m", "vf.httpd", root],
            cwd=os.environ.get("VERIF_ROOT", "/verif"),
            stdin=subprocess.DEVNULL,
            stdout=subprocess.PIPE,
            stderr=subprocess.DEVNULL,
            close_fds=True,
        )
        self.port = int(self.proc.stdout.readline())

    def url(self, path):
        return "http://127.0.0.1:%d%s" % (self.port, path)

    def stop(self):
        self.proc.kill()
        self.proc.wait()
        self.proc.stdout.close()


def fd_count():
    return len(os.listdir("/proc/self/fd"))


def temp_files():
    import term_image.image.common as common

    try:
        return sorted(os.listdir(common._TEMP_DIR))
    except OSError:
        return []


# ----------------------------------------------------------------------------- histories


def direct_frame(ref, i, spec):
    ref.seek(i)
    return format(ref, spec)


def semantic_equal_anim(frame, ref, i, spec, env, termbg):
    """+A fallback: one whole-image command whose pixels are frame i."""
    from PIL import Image

    from .c03 import expected

    try:
        items, rest = parse_iterm2(frame)
    except ProtocolError as e:
        return "framing: %s" % e.kind
    if len(items) != 1:
        return "expected one whole-image command, found %d" % len(items)
    keys, data = items[0]
    W, H = ref.rendered_size
    if (keys.get("width"), keys.get("height")) != (str(W), str(H)):
        return "cells %s x %s, expected %d x %d" % (keys.get("width"), keys.get("height"), W, H)
    got = Image.open(io.BytesIO(data))
    got.load()
    src = Image.open(ref.source)
    try:
        src.seek(i)
        exp = expected(src, 40 / 255 if "#" not in spec else None, got.size, termbg)
        if got.convert(exp.mode).tobytes() != exp.tobytes():
            return "decoded pixels differ from frame %d" % i
    finally:
        src.close()
    return None


def run_history(case, env, res, ctx):
    from term_image.exceptions import TermImageError
    from term_image.image import ImageIterator, Size

    from ..lib import set_terminal, style_classes

    import term_image

    rnd = random.Random(case["seed"])
    set_terminal(env, 40, 14, 4, 8)
    if ctx.get("font_changed"):
        term_image.set_cell_ratio(ctx.pop("font_changed"))
    cls = style_classes()[case["style"]]
    tmpdir, opened, server = ctx["tmpdir"], ctx["opened"], ctx["server"]
    n = case["frames"]
    fmt = case["fmt"]
    name = "c11-%d.%s" % (case["seed"] % 1000000, fmt.lower())
    path = os.path.join(tmpdir, name)
    if n > 1:
        make_anim_file(rnd, path, case["src"][0], case["src"][1], n, fmt)
    else:
        make_image(rnd, case["src"][0], case["src"][1], "RGBA").save(path, "PNG")
    errs = []
    gc.collect()
    opened.reset()
    fds0 = fd_count()
    tmp0 = temp_files()
    caller_pil = None
    kind = case["source"]
    from PIL import Image as PILImage

    image = None
    held = []
    try:
        if kind == "file":
            image = cls.from_file(path, **case["size_kw"])
        elif kind == "pil":
            caller_pil = PILImage.open(path)  # opened by the caller, not through the library's namespace
            image = cls(caller_pil, **case["size_kw"])
        else:
            image = cls.from_url(server.url("/img/" + name), **case["size_kw"])
            if len(temp_files()) != len(tmp0) + 1:
                errs.append(("url-temp-file", "no private copy while the URL image is open: %s" % temp_files()))
        if case.get("size_enum"):
            image.size = getattr(Size, case["size_enum"])
        size0 = image.size
        ref = cls.from_file(path, **case["size_kw"])
        if case.get("size_enum"):
            ref.size = size0
        spec = case["spec"]
        termbg = env.persona.bg and tuple(env.persona.bg)
        anim_req = "+A" in spec or spec.endswith("A") or "+A" in spec.replace("m0", "").replace("m1", "")
        if n > 1:
            for hop in case["ops"]:
                op = hop[0]
                if op == "iterate":
                    _, repeat, cached, steps, seeks, ending = hop
                    it = ImageIterator(image, repeat, spec, cached)
                    if it.loop_no is not None:
                        errs.append(("loop_no", "loop_no is %r before iteration" % (it.loop_no,)))
                    expect = 0
                    yielded = 0
                    total = n * repeat if repeat > 0 else 10**9
                    passes = 0
                    for s in range(steps):
                        if s == case.get("font_at") and not ctx.get("font_changed"):
                            # the font changes in the middle of the iteration (cell ratio
                            # for the text styles, cell size for the graphics styles; the
                            # terminal keeps its size in cells): frames still equal what
                            # formatting them directly gives *now*
                            ctx["font_changed"] = term_image.get_cell_ratio()
                            term_image.set_cell_ratio(case["font_ratio"])
                            set_terminal(env, 40, 14, *case["font_cell"])
                            res.count("iterations with a font change between two frames")
                        if s in seeks and yielded:
                            pos = seeks[s] % n
                            it.seek(pos)
                            expect = pos
                        try:
                            frame = next(it)
                        except StopIteration:
                            if repeat > 0 and not seeks and yielded != total:
                                errs.append(("frame-count", "iteration stopped after %d frames, expected %d" % (yielded, total)))
                            if image.tell() != 0:
                                errs.append(("tell-after-exhaustion", image.tell()))
                            if it.loop_no != 0:
                                errs.append(("loop_no-after-exhaustion", it.loop_no))
                            break
                        yielded += 1
                        if expect >= n:
                            expect = 0
                            passes += 1
                        if image.tell() != expect:
                            errs.append(("tell-tracking", "tell() is %d after yielding frame %d" % (image.tell(), expect)))
                            break
                        if anim_req and case["style"] == "iterm2":
                            msg = semantic_equal_anim(frame, ref, expect, spec, env, termbg)
                            if msg:
                                errs.append(("frame-differs", "frame %d (+A fallback): %s" % (expect, msg)))
                                break
                        else:
                            d = direct_frame(ref, expect, spec)
                            if frame != d:
                                errs.append(("frame-differs", "pass %d frame %d differs from formatting that frame directly (len %d vs %d)" % (passes, expect, len(frame), len(d))))
                                break
                        res.count("frames compared with direct formatting")
                        expect += 1
                    if ending == "close":
                        it.close()
                        it.close()
                        try:
                            next(it)
                            errs.append(("next-after-close", "yielded"))
                        except StopIteration:
                            pass
                        try:
                            it.seek(0)
                            errs.append(("seek-after-close", "accepted"))
                        except TermImageError:
                            pass
                    elif ending == "drop":
                        # abandoned (a loop left with ``break``): once it is gone, so is the
                        # file it had opened -- while the image itself lives on
                        del it
                        it = None
                        if not held:
                            gc.collect()
                            left = opened.unclosed()
                            res.count("censuses right after an iterator was abandoned (image alive)")
                            if left:
                                errs.append(("image-left-open", "%d image file(s) opened by an abandoned iterator still open while its image is alive: %s" % (len(left), [getattr(i, "filename", "?") for i in left][:3])))
                                for im in left:
                                    im.close()
                            left = None
                    elif ending == "image_first":
                        # the caller keeps the (unfinished) iterator, closes the image first
                        # and the iterator afterwards; it still holds the iterator when the
                        # open files are counted
                        held.append(it)
                    else:
                        for _ in it:
                            yielded += 1
                            if yielded > 400:
                                it.close()
                                break
                    del it
                elif op == "str":
                    str(image)
                elif op == "format":
                    format(image, spec)
                elif op == "draw":
                    from .. import drawlib as dl

                    t0 = image.tell()
                    with dl.patched_time(dl.VirtualTime()):
                        image.draw(repeat=1, cached=hop[1], check_size=False, scroll=True)
                    env.take()
                    if image.tell() != t0:
                        errs.append(("tell-after-draw", "animated draw() moved tell() from %d to %d" % (t0, image.tell())))
                elif op == "n_frames":
                    if image.n_frames != n:
                        errs.append(("n_frames", image.n_frames, n))
                elif op == "seek":
                    image.seek(hop[1] % n)
                if image.size != size0:
                    errs.append(("size-altered", "image.size changed from %r to %r by %s" % (size0, image.size, op)))
                    break
                if errs:
                    break
        else:
            str(image), format(image, case["spec"].replace("A", "W"))
            if image.size != size0:
                errs.append(("size-altered", "%r -> %r" % (size0, image.size)))
        ref.close()
        if kind == "url":
            src_path = image.source  # the URL
            tmpname = image._source
            image.close()
            if os.path.exists(tmpname):
                errs.append(("url-temp-file-left", tmpname))
        else:
            image.close()
        image.close()
        for it in held:
            it.close()
            it.close()
            res.count("iterators closed after their image")
        it = None
    except Exception:
        errs.append(("exception", traceback.format_exc()[-1500:]))
    finally:
        image = None
        ref = None
    audit(res, errs, opened, fds0, tmp0, caller_pil)
    del held[:]
    if caller_pil is not None:
        caller_pil.close()
    try:
        os.remove(path)
    except OSError:
        pass
    return errs


def audit(res, errs, opened, fds0, tmp0, caller_pil, collect=True):
    """fds0 is the census taken BEFORE the caller opened its own image (if any)."""
    if collect:
        gc.collect()
    res.count("resource audits")
    left = opened.unclosed()
    if left:
        errs.append(("image-left-open", "%d image file(s) opened by the library still open: %s" % (len(left), [getattr(i, "filename", "?") for i in left][:3])))
        for im in left:
            im.close()
    left = None
    extra = 0
    if caller_pil is not None:
        try:
            caller_pil.seek(0)
            caller_pil.load()
            res.count("caller images verified usable")
        except Exception as e:
            errs.append(("caller-image-closed", "the caller's PIL image is unusable after the history: %s" % e))
        caller_pil.close()  # the census below must not count the caller's own file
    fds1 = fd_count()
    if fds1 > fds0 + extra:
        errs.append(("fd-leak", "open files: %d before, %d after" % (fds0, fds1)))
    if temp_files() != tmp0:
        errs.append(("temp-file-left", str(sorted(set(temp_files()) - set(tmp0)))))
    opened.reset()


def url_failures(env, res, ctx):
    """Construction failures must leave nothing behind."""
    from term_image.exceptions import URLNotFoundError
    from term_image.image import BlockImage

    server, opened = ctx["server"], ctx["opened"]
    for pathq, exc in (("/404", URLNotFoundError), ("/text", Exception), ("/img/missing.png", URLNotFoundError)):
        gc.collect()
        opened.reset()
        fds0, tmp0 = fd_count(), temp_files()
        errs = []
        try:
            im = BlockImage.from_url(server.url(pathq))
            errs.append(("url-bad-accepted", pathq))
            im.close()
        except exc:
            pass
        except Exception as e:
            errs.append(("url-wrong-error", "%s raised %s" % (pathq, type(e).__name__)))
        audit(res, errs, opened, fds0, tmp0, None)
        res.case(("url-failure", pathq))
        for key, msg in [(e[0], e[1] if len(e) > 1 else "") for e in errs]:
            res.violation("C11:" + key, "from_url(%s): %s" % (pathq, msg), dict(kind="url-failure", path=pathq))
    # a failing constructor (bad size argument) after a successful download
    gc.collect()
    opened.reset()
    fds0, tmp0 = fd_count(), temp_files()
    errs = []
    name = "c11-ok.png"
    make_image(random.Random(3), 4, 4, "RGB").save(os.path.join(ctx["tmpdir"], name))
    try:
        BlockImage.from_url(server.url("/img/" + name), width=-1)
        errs.append(("url-bad-size-accepted", ""))
    except ValueError:
        pass
    audit(res, errs, opened, fds0, tmp0, None)
    res.case(("url-failure", "bad-size"))
    for e in errs:
        res.violation("C11:" + e[0], "from_url(width=-1): %s" % (e[1],), dict(kind="url-failure", path="bad-size"))


def url_pairs(env, res, ctx, rnd):
    """Several URL-sourced images open at the same time (same URL or same content under
    another name, any styles), closed in a random order: every one of them has its own
    private copy for exactly as long as it is open, and stays usable until then."""
    from ..lib import style_classes

    server, opened, tmpdir = ctx["server"], ctx["opened"], ctx["tmpdir"]
    gc.collect()
    opened.reset()
    fds0, tmp0 = fd_count(), temp_files()
    errs = []
    name = "c11-pair.png"
    make_image(random.Random(5), 5, 4, "RGB").save(os.path.join(tmpdir, name))
    with open(os.path.join(tmpdir, name), "rb") as f:
        data = f.read()
    os.makedirs(os.path.join(tmpdir, "sub"), exist_ok=True)
    with open(os.path.join(tmpdir, "sub", name), "wb") as f:
        f.write(data)  # same content and base name under another URL
    classes = style_classes()
    urls = [server.url("/img/" + name), server.url("/img/" + name), server.url("/img/sub/" + name)]
    images = []
    try:
        for u in rnd.sample(urls, rnd.randint(2, 3)):
            images.append(classes[rnd.choice(["block", "kitty", "iterm2"])].from_url(u, width=3))
        order = list(range(len(images)))
        rnd.shuffle(order)
        alive = set(order)
        for i in order:
            n_tmp = len(temp_files()) - len(tmp0)
            if n_tmp != len(alive):
                errs.append(("url-temp-file", "%d URL images open, %d private copies exist" % (len(alive), n_tmp)))
                break
            for j in sorted(alive):
                try:
                    str(images[j])
                except Exception as e:
                    errs.append(("url-image-unusable", "an open URL image cannot be rendered after another one was closed: %s: %s" % (type(e).__name__, e)))
                    break
            if errs:
                break
            images[i].close()
            alive.discard(i)
            res.count("URL images closed while others from the same URL stay open")
    except Exception:
        errs.append(("exception", traceback.format_exc()[-1200:]))
    finally:
        for im in images:
            try:
                im.close()
            except Exception:
                pass
        images = im = None
    audit(res, errs, opened, fds0, tmp0, None)
    res.case(("url-pairs",))
    for e in errs:
        res.violation("C11:" + e[0], "URL images open together: %s" % (e[1],), dict(kind="url-pairs"))


def pil_fault_sweep(case, env, res, ctx):
    """A failure injected at the k-th PIL operation of a render / iteration, for all k."""
    from term_image.image import ImageIterator

    from ..lib import set_terminal, style_classes

    rnd = random.Random(case["seed"])
    set_terminal(env, 40, 14, 4, 8)
    cls = style_classes()[case["style"]]
    faults, opened, tmpdir = ctx["faults"], ctx["opened"], ctx["tmpdir"]
    n = case["frames"]
    path = os.path.join(tmpdir, "c11f-%d.%s" % (case["seed"] % 1000000, "gif" if n > 1 else "png"))
    mode = case["mode"]
    if n > 1:
        make_anim_file(rnd, path, 6, 5, n, "GIF")
    else:
        im0 = make_image(rnd, 6, 5, mode if mode in ("1", "L", "LA", "P", "RGB", "RGBA") else "RGBA")
        im0.save(path, "PNG")
    from PIL import Image as PILImage

    def operation(image):
        if n > 1 and case["what"] == "iterate":
            it = ImageIterator(image, 2, case["spec"], case["cached"])
            for _ in range(n + 1):
                next(it)
            it.close()
        elif case["what"] == "draw":
            from .. import drawlib as dl

            with dl.patched_time(dl.VirtualTime()):
                image.draw(repeat=1, check_size=False, scroll=True)
        else:
            format(image, case["spec"])

    def one(k):
        gc.collect()
        opened.reset()
        fds0, tmp0 = fd_count(), temp_files()
        caller = None
        errs = []
        image = None
        if case["source"] == "pil":
            caller = PILImage.open(path)
            image = cls(caller, width=3, height=2)
        else:
            image = cls.from_file(path, width=3, height=2)
        if case.get("size_enum"):
            # a dynamic size: computed for every render, the *setting* must survive a failure
            from term_image.image import Size

            image.size = getattr(Size, case["size_enum"])
        size0, tell0 = image.size, image.tell()
        faults.arm(k)
        outcome = "ok"
        try:
            operation(image)
        except Exception as e:
            outcome = type(e).__name__
            # census while the caller still holds the exception (and through its traceback
            # the frames of the failed operation): correct code has closed its files itself
            faults.arm(None)
            alive = opened.unclosed()
            if alive:
                errs.append(("image-left-open-on-failure", "%d image file(s) still open when %s reached the caller: %s" % (len(alive), outcome, [getattr(i, "filename", "?") for i in alive][:2])))
            alive = None
        finally:
            calls = faults.count
            fired = faults.fired
            faults.arm(None)
            env.take()
        if k is not None and fired and outcome == "ok":
            res.count("injected failures absorbed by the library")
        if image.size != size0:
            errs.append(("size-altered", "%r -> %r" % (size0, image.size)))
        if case["what"] == "draw" and image.tell() != tell0:
            errs.append(("tell-after-failed-draw", image.tell()))
        image.close()
        image = None
        audit(res, errs, opened, fds0, tmp0, caller)
        if caller is not None:
            caller.close()
        return calls, fired, errs, outcome

    K, _, errs, outcome = one(None)
    if errs or outcome != "ok":
        res.violation("C11:fault-free:" + (errs[0][0] if errs else outcome), "fault-free %s: %s %s" % (case, outcome, errs[:2]), dict(case, kind="pil-fault"))
        return
    for k in range(1, K + 1):
        calls, fired, errs, outcome = one(k)
        res.count("PIL fault runs")
        res.case(("pil-fault", case["style"], case["source"], case["what"], case["spec"], mode, n, k))
        for e in errs:
            res.violation("C11:pil-fault:" + e[0], "%s %s %s spec=%r mode=%s: failure at PIL call %d/%d (%s): %s" % (case["style"], case["source"], case["what"], case["spec"], mode, k, K, outcome, e[1] if len(e) > 1 else ""), dict(case, kind="pil-fault", k=k))
    try:
        os.remove(path)
    except OSError:
        pass


def gen(rnd, persona):
    pers = vt_personality(persona)
    style = rnd.choice(["block", "block", "kitty", "iterm2"])
    n = rnd.choice([1, 2, 3, 4, 5])
    fmt = rnd.choice(["GIF", "GIF", "WEBP"]) if n > 1 else "PNG"
    spec = rnd.choice(["", "1.1", "<9.^4", "1.1#", "1.1##", "|.-3#.5"])
    if style == "kitty":
        spec += rnd.choice(["", "+W", "+L", "+Lc0"])
    elif style == "iterm2":
        spec += rnd.choice(["", "+W", "+L", "+A", "+A", "+Wc9"])
    ops = []
    nops = rnd.randint(1, 5)
    for k in range(nops):
        r = rnd.random()
        if r < 0.6:
            repeat = rnd.choice([1, 2, 3, -1])
            steps = rnd.randint(0, n * 3 + 2)
            seeks = {str(s): rnd.randrange(n) for s in range(steps) if rnd.random() < 0.15} if rnd.random() < 0.5 else {}
            ops.append(["iterate", repeat, rnd.choice([True, False, 100, 2]), steps, {int(k): v for k, v in seeks.items()}, rnd.choice(["close", "drop", "exhaust" if repeat > 0 else "close"] + (["image_first"] * 2 if k == nops - 1 else []))])
        elif r < 0.7:
            ops.append(["str"])
        elif r < 0.8:
            ops.append(["format"])
        elif r < 0.88:
            ops.append(["draw", rnd.choice([True, False])])
        elif r < 0.94:
            ops.append(["n_frames"])
        else:
            ops.append(["seek", rnd.randrange(5)])
    return dict(kind="history", style=style, frames=n, fmt=fmt, src=[rnd.randint(2, 10), rnd.randint(2, 10)], source=rnd.choice(["file", "file", "pil", "url"]), size_kw=rnd.choice([dict(width=3, height=2), dict(width=4), {}, dict(height=2)]), size_enum=rnd.choice([None, None, "FIT", "AUTO"]), spec=spec, ops=ops, seed=rnd.getrandbits(32), **(dict(font_at=rnd.randint(1, 2 * n), font_ratio=rnd.choice([0.25, 1.0, 0.8]), font_cell=rnd.choice([[4, 8], [8, 8], [4, 16], [6, 10]])) if rnd.random() < 0.25 else {}))


def gen_fault(rnd):
    style = rnd.choice(["block", "kitty", "iterm2"])
    n = rnd.choice([1, 1, 2, 3])
    spec = rnd.choice(["1.1", "1.1#", "1.1##", "1.1#102030"]) + ({"block": "", "kitty": rnd.choice(["", "+W", "+L"]), "iterm2": rnd.choice(["", "+W", "+L", "+A"])}[style])
    return dict(kind="pil-fault", style=style, frames=n, mode=rnd.choice(["RGB", "RGBA", "L", "LA", "P", "1"]), spec=spec, source=rnd.choice(["file", "pil"]), what=rnd.choice(["format", "format", "iterate", "draw"]), cached=rnd.choice([True, False]), size_enum=rnd.choice([None, None, "FIT", "AUTO", "ORIGINAL"]), seed=rnd.getrandbits(32))


def run_shard(shard, env):
    from ..lib import setup_styles

    res = Result(shard)
    setup_styles(env)
    tmpdir = tempfile.mkdtemp(prefix="vf-c11-")
    opened, faults = Opened(), PilFaults()
    server = Server(tmpdir)
    opened.install()
    faults.install()
    ctx = dict(tmpdir=tmpdir, opened=opened, server=server, faults=faults)
    env.capturing = True
    try:
        rnd = random.Random("%s/c11/%s" % (shard["seed"], shard["index"]))
        if "replay" in shard:
            c = shard["replay"]
            if c.get("kind") == "pil-fault":
                c = {k: v for k, v in c.items() if k != "k"}
                pil_fault_sweep(c, env, res, ctx)
            elif c.get("kind") == "url-failure":
                url_failures(env, res, ctx)
            elif c.get("kind") == "url-pairs":
                for _ in range(8):
                    url_pairs(env, res, ctx, rnd)
            else:
                for e in run_history(c, env, res, ctx):
                    res.violation("C11:" + e[0], str(e[1:]), c)
            return res.as_dict()
        url_failures(env, res, ctx)
        for _ in range(4):
            url_pairs(env, res, ctx, rnd)
        # deterministic part of the PIL failure enumeration: every style x transparency
        # setting x source mode for a plain format() of a file / PIL source
        grid = [
            dict(kind="pil-fault", style=st, frames=1, mode=mode, spec=spec + meth, source=src, what="format", cached=False, seed=1000 + j)
            for j, (st, spec, mode, src, meth) in enumerate(
                (st, spec, mode, src, meth)
                for st in ("block", "kitty", "iterm2")
                for spec in ("1.1", "1.1#", "1.1##", "1.1#102030")
                for mode in ("RGBA", "RGB", "P")
                for src in ("file", "pil")
                for meth in (("",) if st == "block" else ("+W", "+L"))
            )
        ]
        for j, g in enumerate(grid):
            if j % SHARDS == shard["index"]:
                pil_fault_sweep(g, env, res, ctx)
        for i in range(shard["hists"]):
            case = gen(rnd, shard["persona"])
            errs = run_history(case, env, res, ctx)
            env.take()
            res.case((case["source"], case["style"], case["spec"], str(case["ops"]), case["frames"]))
            res.count("histories")
            res.count("source " + case["source"])
            if len(res.samples) < 2:
                res.sample(case)
            for e in errs:
                res.violation("C11:" + e[0], "%s %s %s frames=%d spec=%r: %s" % (case["style"], case["source"], case["fmt"], case["frames"], case["spec"], e[1:]), case)
            if i % 4 == 0:
                pil_fault_sweep(gen_fault(rnd), env, res, ctx)
            if res.too_many():
                break
    except Exception:
        res.inconclusive.append(traceback.format_exc()[-2000:])
    finally:
        faults.uninstall()
        opened.uninstall()
        server.stop()
        shutil.rmtree(tmpdir, ignore_errors=True)
    return res.as_dict()
