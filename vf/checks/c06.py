"""C06 -- draw() leaves the picture in place and the cursor on the line below it."""

from __future__ import annotations

import itertools
import os
import random
import re
import shutil
import sys
import tempfile
import traceback

from .. import drawlib as dl
from ..common import Result, make_anim_file, make_image
from ..env import vt_personality
from ..models import padding as pm

ID = "C06"
LEVEL = "exploration"
NEEDS_PTY = True
N_DRAWS = {"quick": 90, "thorough": 20000}
RULE = (
    "real draw() calls on the pty, both APIs: synthetic renderables (text, SGR, ECH+CUF; 1..6 frames and "
    "INDEFINITE) and Block/Kitty/ITerm2 images (stills and generated 2..4-frame GIF/WebP animations) per "
    "identity; parameters: render size, padding/alignment, loops/repeat 1..3, cache, terminal size, initial cursor "
    "row (top .. bottom, including rows that force scrolling), TTY vs non-TTY stdout, hide_cursor/echo_input, "
    "check_size/scroll/allow_scroll; animations that run to completion and animations ended by a Ctrl-C during the "
    "k-th wait between frames, while the k-th frame is being rendered or while it is being written (a prefix reaches the terminal); the byte stream is cut at every flush and executed on the reference terminal; "
    "distinct = distinct (api, subject kind, identity, still/animated, frames, loops, scroll class, padding class, "
    "validation outcome) tuples"
)
ASSUMPTIONS = [
    "the initial screen is filled with pairwise different cells, so any stray write or extra scroll is visible",
    "reference screens: each (padded) frame executed alone at the draw origin on the same initial screen; after the "
    "call the screen must equal the last frame's reference followed by one newline",
    "sleeps are virtualised (the library's time/sleep names are replaced by a logical clock)",
    "old API: the documented validation rules (check_size / scroll / animations) are asserted for the size the "
    "image is rendered with, whether it was fixed beforehand or is computed at render time (FIT and AUTO always "
    "fit; ORIGINAL and FIT_TO_WIDTH need not)",
]
MIN_EVENTS = {"draw calls executed": {"quick": 1200, "thorough": 40000}, "frames observed at flush boundaries": {"quick": 2500, "thorough": 80000}}
SHARDS = 16
PERSONAS = ["other", "kitty-0.32", "kitty-0.25", "konsole", "wezterm", "iterm2", "kitty-0.25.2"]


def plan(tier, seed):
    return [dict(persona=PERSONAS[i % len(PERSONAS)], seed=seed, index=i, count=N_DRAWS[tier], winsize=[40, 12, 160, 96]) for i in range(SHARDS)]


def interruptible_time(case):
    """Virtual time in which the k-th sleep of the draw() is interrupted by Ctrl-C (the way
    an animation -- endless by default -- is normally ended)."""
    vt = dl.VirtualTime()
    k = case.get("ki_sleep")
    if k:
        n = [0]

        def on_sleep(d):
            n[0] += 1
            if n[0] == k:
                raise KeyboardInterrupt

        vt.on_sleep = on_sleep
    return vt


def to_raw(s):
    return s.replace("\n", "\r\n")


def judge_stream(data, refs, order, rows, cols, personality, r0, res, final_extra="\r\n", cooked_out=False):
    """data: captured bytes; refs: list of frame strings (padded, library newline form);
    order: expected sequence of frame indices.  Returns list of errors."""
    errs = []
    T = dl.new_screen(rows, cols, personality, r0)
    R = []
    for f in refs:
        v = dl.new_screen(rows, cols, personality, r0)
        v.feed(to_raw(f))
        R.append(v)
    Rviews = [dl.screen_view(v) for v in R]
    segs = dl.split_marks(data)
    seen = []
    initial = dl.screen_view(dl.new_screen(rows, cols, personality, r0))
    for si, seg in enumerate(segs):
        T.feed(seg.decode("utf-8", "replace"))
        last = si == len(segs) - 1
        if last:
            break
        view = dl.screen_view(T)
        match = [i for i, rv in enumerate(Rviews) if rv == view]
        if not seen and view == initial and (not match or not order):
            continue  # a flush before the first frame (e.g. the cursor being hidden)
        if not match:
            # the very last flush comes after the final newline
            if si == len(segs) - 2:
                continue
            if not seen:
                # nothing drawn yet (e.g. a style's pre-erase of the region): the first
                # frame must still show up, or the sequence check below fails
                continue
            d = dl.diff_views(view, Rviews[order[min(len(seen), len(order) - 1)]] if order else Rviews[0])
            errs.append(("frame-state", "after flush %d the screen matches no frame drawn alone at the origin" % si, d[:2]))
            break
        res.count("frames observed at flush boundaries")
        nxt = order[len(seen)] if len(seen) < len(order) else None
        cur = seen[-1] if seen else None
        if cur in match and (nxt not in match or nxt == cur):
            continue
        if nxt in match:
            seen.append(nxt)
        else:
            errs.append(("frame-order", "flush %d shows frame %s, expected %s after %s" % (si, match, nxt, seen[-6:])))
            break
    if not errs and order and seen != list(order):
        errs.append(("frame-sequence", "observed frames %s, expected %s" % (seen[-12:], list(order)[-12:])))
    # final state
    F = R[order[-1]] if order else R[0]
    F.feed(final_extra)
    fv, tv = dl.screen_view(F), dl.screen_view(T)
    if fv != tv:
        errs.append(("final-screen", dl.diff_views(tv, fv)))
    if (T.r, T.c) != (F.r, 0):
        errs.append(("final-cursor", (T.r, T.c), (F.r, 0)))
    if T.scrolls != F.scrolls:
        errs.append(("scrolls", T.scrolls, F.scrolls))
    if not T.visible:
        errs.append(("cursor-hidden",))
    if not T.sgr_default():
        errs.append(("sgr-not-reset", T.fg, T.bg))
    for a in T.anomalies():
        errs.append(a)
    return errs


_CURSOR_ONLY = re.compile(r"\A[\r\n]*(?:\x1b\[[0-9;]*[A-H])*\Z")


def interrupted_write(tap, case, animator):
    """Ctrl-C while the k-th frame of an animation is being written: a prefix of the
    frame reaches the terminal, then KeyboardInterrupt is raised out of the write.  (A
    frame write = a write issued from within the animation loop -- not by its frame
    clearing or interruption hooks -- that is not a mere cursor movement.)"""
    k, frac = case["ki_write"]
    n = [0]

    def on_op(kind, idx, data):
        if kind != "write" or not data or n[0] >= k:
            return
        if _CURSOR_ONLY.match(data):
            return
        f, inside = sys._getframe(3), False
        while f is not None and not inside:
            name = f.f_code.co_name
            if name.startswith(("_clear_frame", "_handle_interrupted_draw")):
                return
            inside = name == animator
            f = f.f_back
        if not inside:
            return
        n[0] += 1
        if n[0] == k:
            cut = int(len(data) * frac)
            tap._o.write(data[:cut])
            tap._o.flush()
            tap.cut = (cut, len(data))
            raise KeyboardInterrupt

    tap.on_op = on_op
    tap.cut = None


def judge_unfinished(data, rows, cols, personality, r0, PH, what):
    """The call ended before / while a frame was completed: where the cursor belongs is
    not defined by a frame; but if the region has been drawn on, the call must not return
    with the cursor inside it (nor hidden)."""
    T = dl.new_screen(rows, cols, personality, r0)
    init = dl.screen_view(dl.new_screen(rows, cols, personality, r0))[0]
    T.feed(data.replace(dl.MARK, b"").decode("utf-8", "replace"))
    grid = dl.screen_view(T)[0]
    top, bottom = r0 - T.scrolls, r0 + PH - 1 - T.scrolls
    touched = any(grid[r] != init[r + T.scrolls] for r in range(max(top, 0), min(bottom, rows - 1) + 1) if 0 <= r + T.scrolls < rows)
    errs = []
    if r0 + PH > rows and what != "before the first frame":
        # the region did not fit below the cursor: how far the screen had scrolled when the
        # frame was cut short decides where its (unwritten) remainder would be
        touched = False
    if touched and T.r <= bottom:
        errs.append(("cursor-inside-region", "the region (rows %d..%d) was drawn on %s, the call returned with the cursor on row %d" % (top, bottom, what, T.r)))
    if not T.visible:
        errs.append(("cursor-hidden",))
    return errs, T


# ----------------------------------------------------------------------------- new API


def run_new(case, env, res):
    from term_image.geometry import Size
    from term_image.renderable import FrameCount, RenderSizeOutofRangeError

    from ..iterhist import build_padding, resolve_desc
    from ..subjects import Subj, synth_render

    cols, rows = case["term"]
    env.set_winsize(cols, rows)
    W, H = case["size"]
    n = case["n"]
    indef = case.get("indef_len") is not None
    subj = Subj(FrameCount.INDEFINITE if indef else n, 5, (W, H), case["kind"], indef_len=case.get("indef_len"))
    pd = resolve_desc(case["pad"], (cols, rows))
    padding = build_padding(case["pad"])
    rpad = build_padding(pd)
    PW, PH = tuple(rpad.get_padded_size(Size(W, H)))
    animated = (n != 1 or indef) and case["animate"]
    check = animated or case["check_size"]
    allow_scroll = (not animated) and case["allow_scroll"]
    reject = check and (PW > cols or (not allow_scroll and PH > rows))
    r0 = case["r0f"] * (rows - 1) // 1000
    env.take()
    tap = dl.TapOut(sys.stdout, tty=case["tty"])
    saved = sys.stdout
    sys.stdout = tap
    exc = None
    if animated and case.get("ki_write"):
        interrupted_write(tap, case, "_animate_")
    try:
        with dl.patched_time(interruptible_time(case)):
            subj.draw(None, padding, animate=case["animate"], loops=case["loops"], cache=case["cache"], check_size=case["check_size"], allow_scroll=case["allow_scroll"], hide_cursor=case["hide_cursor"], echo_input=case["echo_input"])
    except Exception as e:
        exc = e
    finally:
        sys.stdout = saved
    data = env.take()
    res.count("draw calls executed")
    res.count("validation: " + ("rejected" if reject else "accepted"))
    desc = ("new", case["kind"], "anim" if animated else "still", n if not indef else "indef", case["loops"] if animated else 0, "scroll" if r0 + PH + 1 > rows else "fits", case["pad"]["type"], "rejected" if reject else "ok", case["tty"])
    res.case((desc, W, H, PW, PH, cols, rows, r0))
    if reject:
        if not isinstance(exc, RenderSizeOutofRangeError):
            return [("validation-accepted-bad-size", "padded %dx%d on %dx%d: %r" % (PW, PH, cols, rows, exc))]
        if data.replace(dl.MARK, b""):
            return [("validation-wrote-before-raising", data[:40])]
        return []
    if exc is not None:
        return [("unexpected-exception", "%s: %s (padded %dx%d on %dx%d)" % (type(exc).__name__, exc, PW, PH, cols, rows))]
    if PW > cols or PH > rows:
        res.count("unvalidated oversize draws (not judged)")
        return []
    if animated:
        frames = list(range(case["indef_len"])) if indef else list(range(n))
        order = frames * (1 if indef else case["loops"])
    else:
        frames, order = [0], [0]
    refs = []
    for i in frames:
        inner = synth_render(case["kind"], W, H, i * 3)
        refs.append(rpad.pad(inner, Size(W, H)) if (PW, PH) != (W, H) else inner)
    if animated and case.get("ki_sleep") and case["ki_sleep"] <= len(order):
        # Ctrl-C during the k-th wait: k frames were shown, the call ends silently
        order = order[: case["ki_sleep"]]
        res.count("animations ended by Ctrl-C between two frames")
    if animated and case.get("ki_write") and getattr(tap, "cut", None):
        res.count("animations ended by Ctrl-C while a frame was being written")
        errs, T = judge_unfinished(data, rows, cols, "other", r0, PH, "and frame %d cut short after %d of %d characters" % ((case["ki_write"][0],) + tap.cut))
        return errs
    if not order:
        # INDEFINITE source with no frame at all: nothing but the final newline
        refs, order = [""], []
    return judge_stream(data, refs, order, rows, cols, "other", r0, res)


def gen_new(rnd):
    cols, rows = rnd.randint(4, 40), rnd.randint(2, 14)
    W, H = rnd.randint(1, min(cols + 1, 10)), rnd.randint(1, min(rows + 1, 6))
    r = rnd.random()
    case = dict(api="new", term=[cols, rows], size=[W, H], kind=rnd.choice(["text", "text", "sgr", "ech", "digits"]), animate=rnd.random() < 0.9, loops=rnd.choice([1, 1, 2, 3]), cache=rnd.choice([False, True, 3, 100]), check_size=rnd.random() < 0.8, allow_scroll=rnd.random() < 0.3, hide_cursor=rnd.random() < 0.8, echo_input=rnd.random() < 0.3, tty=rnd.random() < 0.85, r0f=rnd.choice([0, 1000, 1000, rnd.randint(0, 1000)]), ki_sleep=rnd.choice([None, None, None, 1, 2, 3, 5]))
    if case["ki_sleep"] is None and rnd.random() < 0.25:
        case["ki_write"] = [rnd.choice([1, 1, 2, 3]), rnd.choice([0.0, rnd.random(), rnd.random(), 0.999])]
    if r < 0.3:
        case["n"] = 1
    elif r < 0.4:
        case["n"] = None
        case["indef_len"] = rnd.randint(0, 4)
    else:
        case["n"] = rnd.randint(2, 6)
    p = rnd.random()
    if p < 0.3:
        case["pad"] = dict(type="aligned", width=0, height=-2, h=1, v=1, fill=" ")
    elif p < 0.6:
        case["pad"] = dict(type="aligned", width=rnd.choice([rnd.randint(1, cols + 2), 0, -rnd.randint(0, 5)]), height=rnd.choice([rnd.randint(1, rows + 2), 0, -rnd.randint(0, 4)]), h=rnd.randrange(3), v=rnd.randrange(3), fill=rnd.choice([" ", " ", "*", ""]))
    elif p < 0.85:
        case["pad"] = dict(type="exact", dims=[rnd.randint(0, 3) for _ in range(4)], fill=rnd.choice([" ", ".", ""]))
    else:
        case["pad"] = dict(type="exact", dims=[0, 0, 0, 0], fill=" ")
    return case


# ----------------------------------------------------------------------------- old API


def run_old(case, env, res, tmpdir, state):
    from term_image.exceptions import InvalidSizeError
    from term_image.image import Size as ISize

    from ..lib import set_terminal, style_classes

    rnd = random.Random(case["seed"])
    cols, rows = case["term"]
    set_terminal(env, cols, rows, 4, 8)
    cls = style_classes()[case["style"]]
    personality = vt_personality(env.persona_name)
    state["n"] += 1
    frames_n = case["frames"]
    if frames_n > 1:
        path = os.path.join(tmpdir, "c06-%d.%s" % (state["n"], case["fmt"].lower()))
        make_anim_file(rnd, path, case["src"][0], case["src"][1], frames_n, case["fmt"])
        image = cls.from_file(path, **case["size_kw"])
    else:
        image = cls(make_image(rnd, case["src"][0], case["src"][1], "RGBA"), **case["size_kw"])
    if case.get("size_enum"):
        image.size = getattr(ISize, case["size_enum"])
    fixed = not isinstance(image.size, ISize)
    W, H = image.rendered_size
    h, pw, v, ph = case["h"], case["pw"], case["v"], case["ph"]
    apw, aph = pm.absolute(pw, cols), pm.absolute(ph, rows)
    PW, PH = max(W, apw), max(H, aph)
    animation = frames_n > 1 and case["animate"]
    # documented validation rules
    expect = None
    if pw > cols:
        expect = ValueError
    elif animation and ph > rows:
        expect = ValueError
    elif (case["check_size"] or animation) and (W > cols or ((animation or not case["scroll"]) and H > rows)):
        expect = InvalidSizeError
    r0 = case["r0f"] * (rows - 1) // 1000
    style = dict(case.get("style_kw") or {})
    alpha = case["alpha"]
    env.take()
    base = sys.stdout
    if case.get("own_stream"):
        # the application has replaced sys.stdout since the library was imported (another
        # stream object, with a buffer of its own, on the same terminal): everything a draw
        # writes has to go through the stream that is sys.stdout *now*, in order
        import io

        sys.stdout.flush()
        base = io.TextIOWrapper(io.FileIO(sys.stdout.fileno(), "w", closefd=False), encoding="utf-8", line_buffering=True)  # (as the interpreter sets up a terminal stdout)
        res.count("draws after sys.stdout was replaced by another stream on the same terminal")
    tap = dl.TapOut(base, tty=case["tty"])
    saved = sys.stdout
    sys.stdout = tap
    exc = None
    tell0 = image.tell()
    if animation and case.get("ki_render"):
        # Ctrl-C while the k-th frame is being rendered (nothing of it written yet)
        real_render, n_render = image._render_image, [0]

        def interrupted_render(*a, **k):
            n_render[0] += 1
            if n_render[0] == case["ki_render"]:
                raise KeyboardInterrupt
            return real_render(*a, **k)

        image._render_image = interrupted_render
    if animation and case.get("ki_write"):
        interrupted_write(tap, case, "_display_animated")
    try:
        with dl.patched_time(interruptible_time(case)):
            image.draw(h, pw, v, ph, alpha, animate=case["animate"], repeat=case["repeat"], cached=case["cached"], scroll=case["scroll"], check_size=case["check_size"], **style)
    except Exception as e:
        exc = e
    finally:
        sys.stdout = saved
        image.__dict__.pop("_render_image", None)
    data = env.take()
    if base is not saved:
        base.flush()
        saved.flush()
        env.take()  # (whatever went to the stream of import time arrives too late to count)
    res.count("draw calls executed")
    res.count("validation: " + ("rejected" if expect else "accepted"))
    desc = ("old", case["style"], env.persona_name, "anim" if animation else "still", frames_n, case["repeat"] if animation else 0, "scroll" if r0 + PH + 1 > rows else "fits", (h, v), "rejected" if expect else "ok", case["tty"])
    res.case((desc, W, H, PW, PH, cols, rows, r0))
    try:
        if expect is not None:
            if exc is None or not isinstance(exc, expect):
                return [("validation-accepted-bad-size", "expected %s for image %dx%d pad (%d,%d) on %dx%d anim=%s scroll=%s check=%s fixed=%s; got %r" % (expect.__name__, W, H, pw, ph, cols, rows, animation, case["scroll"], case["check_size"], fixed, exc))]
            if data.replace(dl.MARK, b""):
                return [("validation-wrote-before-raising", data[:40])]
            return []
        if exc is not None:
            return [("unexpected-exception", "%s: %s" % (type(exc).__name__, exc))]
        if PW > cols or PH > rows or W > cols or H > rows:
            res.count("unvalidated oversize draws (not judged)")
            return []
        if image.tell() != tell0:
            return [("tell-moved", tell0, image.tell())]
        sargs = image._check_style_args(dict(style))
        if animation and sargs.get("method") == "anim":
            # within an animation ANIM means one whole-image command per frame (documented);
            # the library encodes those frames at the full render resolution
            sargs["frame"] = True
        fmt = image._check_formatting(h, pw, v, ph)
        refs = []
        idxs = range(frames_n) if animation else [tell0]
        for i in idxs:
            if frames_n > 1:
                image.seek(i)
            refs.append(image._format_render(image._renderer(image._render_image, alpha, **sargs), *fmt))
        if frames_n > 1:
            image.seek(tell0)
        order = list(range(frames_n)) * case["repeat"] if animation else [0]
        if animation and case.get("ki_sleep") and case["ki_sleep"] <= len(order) - 1:
            order = order[: case["ki_sleep"]]
            res.count("animations ended by Ctrl-C between two frames")
        if animation and case.get("ki_render") and case["ki_render"] <= frames_n:
            order = order[: case["ki_render"] - 1]
            res.count("animations ended by Ctrl-C while a frame was being rendered")
            if not order:
                # no frame was completed; but if the style has already drawn on the region
                # (WezTerm's pre-erase), the call must not return with the cursor inside it
                errs, T = judge_unfinished(data, rows, cols, personality, r0, PH, "before the first frame")
                if not T.sgr_default():
                    errs.append(("sgr-not-reset", T.fg, T.bg))
                return errs
        if animation and case.get("ki_write") and getattr(tap, "cut", None):
            res.count("animations ended by Ctrl-C while a frame was being written")
            errs, T = judge_unfinished(data, rows, cols, personality, r0, PH, "and frame %d cut short after %d of %d characters" % ((case["ki_write"][0],) + tap.cut))
            return errs
        if not case["tty"]:
            pass
        if os.environ.get("VERIF_DEBUG_C06"):
            import re as _re
            sys.stderr.write("REFS %r\nDATA %r\nSARGS %r\n" % ([_re.findall(r"File=([^:]*):(.{30})", r) for r in refs], _re.findall(rb"File=([^:]*):(.{30})", data), sargs))
        return judge_stream(data, refs, order, rows, cols, personality, r0, res)
    finally:
        image.close()


def gen_old(rnd, persona):
    cols, rows = rnd.randint(6, 40), rnd.randint(3, 14)
    pers = vt_personality(persona)
    styles = ["block", "block"] + {"kitty": ["kitty", "kitty"], "konsole": ["kitty", "iterm2"], "wezterm": ["iterm2", "iterm2"], "iterm2": ["iterm2", "iterm2"], "other": ["kitty", "iterm2"]}[pers]
    style = rnd.choice(styles)
    frames = rnd.choice([1, 1, 2, 3, 4])
    if style == "kitty" and pers not in ("kitty", "konsole"):
        # animations of the kitty style rely on per-terminal frame clearing (delete by
        # z-index / non-blending placements / replacement): only where it is supported
        frames = 1
    sizing = rnd.random()
    size_kw, size_enum = {}, None
    if sizing < 0.6:
        size_kw = dict(width=rnd.randint(1, min(cols + 1, 10)), height=rnd.randint(1, min(rows + 1, 6)))
    elif sizing < 0.75:
        size_kw = dict(width=rnd.randint(1, 8))
    elif sizing < 0.85:
        size_kw = dict(height=rnd.randint(1, 5))
    else:
        size_enum = rnd.choice(["FIT", "AUTO", "FIT_TO_WIDTH", "ORIGINAL", "ORIGINAL"])
    case = dict(api="old", style=style, term=[cols, rows], frames=frames, fmt=rnd.choice(["GIF", "GIF", "WEBP"]), src=[rnd.randint(2, 12), rnd.randint(2, 12)], size_kw=size_kw, size_enum=size_enum, seed=rnd.getrandbits(32))
    case.update(
        h=rnd.choice([None, "<", "|", ">", "left", "right"]),
        v=rnd.choice([None, "^", "-", "_", "top", "bottom"]),
        pw=rnd.choice([0, 0, rnd.randint(1, cols + 2), -rnd.randint(0, 6)]),
        ph=rnd.choice([-2, -2, rnd.randint(1, rows + 2), 0, -rnd.randint(0, 5)]),
        alpha=rnd.choice([40 / 255, None, "#", "#102030", 0.5]),
        animate=rnd.random() < 0.9,
        repeat=rnd.choice([1, 1, 2, 3]),
        cached=rnd.choice([True, False, 100, 2]),
        scroll=rnd.random() < 0.3,
        check_size=rnd.random() < 0.8,
        tty=rnd.random() < 0.85 or style == "kitty",
        r0f=rnd.choice([0, 1000, 1000, rnd.randint(0, 1000)]),
        ki_sleep=rnd.choice([None, None, None, 1, 2, 3, 5]),
        own_stream=rnd.random() < 0.12,
    )
    if case["ki_sleep"] is None and rnd.random() < 0.25:
        case["ki_render"] = rnd.choice([1, rnd.randint(1, frames)])
    elif case["ki_sleep"] is None and rnd.random() < 0.3:
        case["ki_write"] = [rnd.choice([1, 1, 2, 3]), rnd.choice([0.0, rnd.random(), rnd.random(), 0.999])]
    if style == "kitty":
        kw = {}
        if rnd.random() < 0.3:
            kw["method"] = rnd.choice(["lines", "whole"])
        if rnd.random() < 0.35:
            kw["z_index"] = rnd.choice([0, 5, -3])
        if rnd.random() < 0.3:
            kw["mix"] = rnd.random() < 0.5
        case["style_kw"] = kw
    elif style == "iterm2":
        kw = {}
        if rnd.random() < 0.4:
            # "anim": native animation for a still draw of an animated image, whole-image
            # frames within an animation (documented fall-back)
            kw["method"] = rnd.choice(["lines", "whole", "anim"])
        if rnd.random() < 0.3:
            kw["mix"] = rnd.random() < 0.5
        case["style_kw"] = kw
    return case


def corner_cases(persona, index):
    """A few fixed cases, in every run: interruptions of old-API animations at the very first
    frame, where styles that prepare the region beforehand differ from the others."""
    if index >= len(PERSONAS):  # once per identity
        return
    pers = vt_personality(persona)
    styles = ["block"] + (["iterm2"] if pers in ("wezterm", "iterm2", "konsole", "other") else []) + (["kitty"] if pers in ("kitty", "konsole") else [])
    for style in styles:
        for r0f in (0, 200, 1000):
            for ph in (-2, 8, 1):
                base = dict(api="old", style=style, term=[30, 14], frames=3, fmt="GIF", src=[8, 8], size_kw=dict(width=6, height=4), size_enum=None, seed=4242, h=None, v=None, pw=0, ph=ph, alpha=40 / 255, animate=True, repeat=2, cached=False, scroll=False, check_size=True, tty=True, r0f=r0f, style_kw={})
                yield dict(base, ki_sleep=None, ki_render=1)
                yield dict(base, ki_sleep=1)
                yield dict(base, ki_sleep=None, ki_render=2)
                for k in (1, 2, 4):
                    yield dict(base, ki_sleep=None, ki_write=[k, 0.5])
                yield dict(base, ki_sleep=None, own_stream=True)
    if index == 0:
        for r0f in (0, 200, 1000):
            for pad in (dict(type="aligned", width=10, height=9, h=1, v=1, fill=" "), dict(type="exact", dims=[1, 2, 1, 2], fill="."), dict(type="exact", dims=[0, 0, 0, 0], fill=" ")):
                for k in (1, 2):
                    for frac in (0.0, 0.4, 0.8):
                        yield dict(api="new", term=[30, 14], size=[6, 5], kind="text", animate=True, loops=2, cache=False, check_size=True, allow_scroll=False, hide_cursor=True, echo_input=False, tty=True, r0f=r0f, ki_sleep=None, n=3, pad=pad, ki_write=[k, frac])


def run_shard(shard, env):
    from ..lib import setup_styles

    res = Result(shard)
    setup_styles(env)
    tmpdir = tempfile.mkdtemp(prefix="vf-c06-")
    state = {"n": 0}
    try:
        if "replay" in shard:
            cases = [shard["replay"]]
        else:
            rnd = random.Random("%s/c06/%s" % (shard["seed"], shard["index"]))
            random_cases = (gen_new(rnd) if rnd.random() < 0.45 else gen_old(rnd, shard["persona"]) for _ in range(shard["count"]))
            cases = itertools.chain(corner_cases(shard["persona"], shard["index"]), random_cases)
        for case in cases:
            try:
                errs = run_new(case, env, res) if case["api"] == "new" else run_old(case, env, res, tmpdir, state)
            except Exception as e:
                from ..env import HarnessTimeout

                if isinstance(e, HarnessTimeout):
                    res.inconclusive.append("harness time-out (not a verdict): %s" % str(e)[:600])
                    continue
                errs = [("harness-exception", traceback.format_exc()[-1500:])]
            res.sample(case)
            if errs:
                sub = case.get("kind") or case.get("style")
                res.violation("C06:%s:%s:%s" % (case["api"], "anim" if (case.get("frames", 0) > 1 or (case.get("n") != 1)) and case.get("animate") else "still", errs[0][0]), "%s API %s on %s [%s]: %r" % (case["api"], sub, case["term"], env.persona_name, errs[:3]), case)
            if state["n"] % 30 == 0:
                for f in os.listdir(tmpdir):
                    try:
                        os.remove(os.path.join(tmpdir, f))
                    except OSError:
                        pass
            if res.too_many():
                break
    finally:
        shutil.rmtree(tmpdir, ignore_errors=True)
    return res.as_dict()
