"""C02 -- block renders show exactly the image's pixels (DESIGN.md 3/C02)."""

from __future__ import annotations

import hashlib
import math
import random

from ..common import MODES, Result, rand_pixels
from ..env import vt_personality
from ..vterm import VTerm

ID = "C02"
LEVEL = "exploration"
NEEDS_PTY = True
RULE = (
    "random pixel patterns aimed at the run-length encoder (runs, single-pixel changes, alpha transitions "
    "inside a colour run, alpha around the threshold, colours equal to the terminal background) x 9 modes x "
    "alpha settings x terminal background known/unknown x kitty workaround on/off x split-cells; three oracle "
    "tiers (identity: source at render resolution, uniform, PIL-resampled); non-trivial = at least one cell "
    "compared; distinct = distinct (tier, mode, alpha kind, W, H, run-boundary signature) tuples"
)
ASSUMPTIONS = [
    "VTerm interprets SGR 38;2/48;2 direct colour; a blank cell shows its background in both halves, "
    "U+2580 shows fg above bg, U+2584 shows bg above fg",
    "on a kitty identity a background equal to the terminal's default background displays as default; the "
    "documented +-1 red workaround is required exactly for half-cells displayed through the background whose "
    "expected colour equals the terminal background",
    "threshold semantics (documented: 'the alpha ratio above which pixels are taken as opaque'): alpha/255 below "
    "the threshold is transparent, above it opaque, and only exact equality is left open",
    "PIL's convert / resize(BOX) / alpha_composite are trusted for the resampled tier; the identity tier uses "
    "the generator's own arrays (PIL only for compositing semi-transparent pixels)",
]
PERSONAS = ["other", "kitty-0.32"]
SIZES = {"quick": 400, "thorough": 45000}
MIN_EVENTS = {"cells compared": {"quick": 50000, "thorough": 1000000}}

FG_DEFAULT = "FGDEF"


def plan(tier, seed):
    n = 8 if tier == "quick" else 8
    return [
        dict(persona=p, seed=seed, index=i, count=SIZES[tier])
        for p in PERSONAS
        for i in range(n)
    ]


def composite(col, a, bg):
    """PIL's alpha_composite of (col, a) over opaque bg, via PIL itself."""
    from PIL import Image

    o = Image.new("RGBA", (1, 1), tuple(bg) + (255,))
    o.alpha_composite(Image.new("RGBA", (1, 1), tuple(col) + (a,)))
    return o.getpixel((0, 0))[:3]


def expected_pixels(rgba, alpha_mode, thr, hexbg, termbg):
    """rgba: list of (r,g,b,a) at render resolution.  Returns list of expected visible
    values: colour tuple, None (terminal default background) or ('either', colour)."""
    out = []
    base = termbg or (0, 0, 0)
    cache = {}
    for r, g, b, a in rgba:
        col = (r, g, b)
        if alpha_mode == "none":
            out.append(col)
            continue
        if alpha_mode in ("hex", "termbg"):
            bgc = hexbg if alpha_mode == "hex" else base
            if a == 255:
                out.append(col)
            elif a == 0:
                out.append(tuple(bgc))
            else:
                k = (col, a, bgc)
                if k not in cache:
                    cache[k] = composite(col, a, bgc)
                out.append(cache[k])
            continue
        # threshold
        # "the alpha ratio above which pixels are taken as opaque": a/255 < thr is transparent,
        # a/255 > thr opaque; only exact equality (up to float noise) is left open
        x = thr * 255
        lo, hi = (round(x), round(x)) if abs(x - round(x)) < 1e-6 else (math.floor(x) + 1, math.floor(x))
        if a == 255:
            vis = col
        elif a == 0:
            vis = tuple(base)
        else:
            k = (col, a, base)
            if k not in cache:
                cache[k] = composite(col, a, base)
            vis = cache[k]
        if a < lo:
            out.append(None)
        elif a > hi:
            out.append(vis)
        else:  # a/255 == thr
            out.append(("either", vis))
    return out


def cells_of(vt, W, H, kitty_bg):
    rows = []
    for r in range(H):
        row = []
        for c in range(W):
            cell = vt.grid[r][c]
            ch, fg, bg = cell[0], cell[1], cell[2]
            raw_bg = bg
            if kitty_bg is not None and bg == kitty_bg:
                bg = None
            fgv = FG_DEFAULT if fg is None else fg
            if ch == " ":
                row.append(((bg, True, raw_bg), (bg, True, raw_bg)))
            elif ch == "▀":
                row.append(((fgv, False, None), (bg, True, raw_bg)))
            elif ch == "▄":
                row.append(((bg, True, raw_bg), (fgv, False, None)))
            else:
                row.append((("?" + repr(cell), False, None),) * 2)
        rows.append(row)
    return rows


def judge(got, exp, on_kitty, termbg):
    """got = (visible, via_bg, raw_bg); exp = colour | None | ('either', colour)."""
    vis, via_bg, raw_bg = got
    if isinstance(exp, tuple) and exp and exp[0] == "either":
        return judge(got, None, on_kitty, termbg) or judge(got, exp[1], on_kitty, termbg)
    if exp is None:
        return vis is None
    if on_kitty and via_bg and termbg is not None and tuple(exp) == tuple(termbg):
        # must NOT be displayed as default; documented +-1 on red
        return (
            raw_bg is not None
            and tuple(raw_bg[1:]) == tuple(exp[1:])
            and abs(raw_bg[0] - exp[0]) == 1
        )
    return vis is not None and vis != FG_DEFAULT and tuple(vis) == tuple(exp)


def run_case(case, env, res):
    import term_image
    from PIL import Image
    from term_image.image import BlockImage

    from ..lib import refresh_queries, set_terminal

    rnd = random.Random(case["img_seed"])
    W, H = case["size"]
    termbg = tuple(case["termbg"]) if case["termbg"] else None
    if env.persona.bg != termbg:
        env.persona.bg = termbg
        refresh_queries()
    set_terminal(env, max(W, 2), max(H, 2) + 2, 8, 16)
    on_kitty = vt_personality(env.persona_name) == "kitty"
    tier = case["tier"]
    mode = case["mode"]
    alpha_mode, thr = case["alpha_mode"], case.get("thr", 0.0)
    hexbg = tuple(case["hexbg"]) if case.get("hexbg") else None

    if tier == "identity":
        px = rand_pixels(rnd, W, 2 * H, case.get("pattern"))
        if case.get("use_termbg") and termbg:
            px = [(termbg + (p[3],)) if rnd.random() < 0.4 else p for p in px]
        if mode == "RGB":
            px = [p[:3] + (255,) for p in px]
        src = Image.new("RGBA", (W, 2 * H))
        src.putdata(px)
        if mode == "RGB":
            src = src.convert("RGB")
        at_res = px
    elif tier == "uniform":
        sw, sh = case["src"]
        col = tuple(case["colour"])
        # built directly in the target mode: converting a uniform RGBA image to "1" or "P"
        # would dither it into a non-uniform one
        r_, g_, b_, a_ = col
        if mode == "RGBA":
            src = Image.new("RGBA", (sw, sh), col)
        elif mode == "RGB":
            src = Image.new("RGB", (sw, sh), col[:3])
        elif mode == "1":
            src = Image.new("1", (sw, sh), 255 if r_ > 127 else 0)
        elif mode == "L":
            src = Image.new("L", (sw, sh), r_)
        elif mode == "LA":
            src = Image.new("LA", (sw, sh), (r_, a_))
        elif mode == "CMYK":
            src = Image.new("CMYK", (sw, sh), (r_, g_, b_, a_ // 2))
        elif mode == "HSV":
            src = Image.new("HSV", (sw, sh), (r_, g_, b_))
        elif mode == "P":
            src = Image.new("P", (sw, sh), 3)
            src.putpalette([0, 0, 0, 9, 9, 9, 1, 2, 3, r_, g_, b_] + [7] * (252 * 3))
            if a_ < 128:
                src.info["transparency"] = 3 if a_ < 64 else 2
        else:  # PA
            src = Image.new("PA", (sw, sh), (3, a_))
            src.putpalette([0, 0, 0, 9, 9, 9, 1, 2, 3, r_, g_, b_] + [7] * (252 * 3))
        # what one pixel of this uniform source converts to.  Pillow resizes RGBA through
        # premultiplied alpha, which may move a semi-transparent colour by one unit: the
        # expected value of a semi-transparent uniform source is therefore taken from the
        # same trusted PIL operations; uniformity itself is asserted exactly below.
        if alpha_mode == "none" or src.mode in ("1", "L", "RGB", "HSV", "CMYK"):
            im = src.convert("RGB").resize((W, 2 * H), Image.Resampling.BOX)
            at_res = [q + (255,) for q in im.getdata()]
        else:
            im = src.convert("RGBA").resize((W, 2 * H), Image.Resampling.BOX)
            at_res = list(im.getdata())
        if len(set(at_res)) != 1:
            res.count("skipped: PIL itself made a uniform source non-uniform")
            return
    else:  # resampled
        sw, sh = case["src"]
        from ..common import make_image

        src = make_image(rnd, sw, sh, mode, case.get("pattern"))
        if alpha_mode == "none" or src.mode in ("1", "L", "RGB", "HSV", "CMYK"):
            im = src.convert("RGB").resize((W, 2 * H), Image.Resampling.BOX)
            at_res = [p + (255,) for p in im.getdata()]
        else:
            im = src.convert("RGBA").resize((W, 2 * H), Image.Resampling.BOX)
            at_res = list(im.getdata())

    eff_alpha = alpha_mode
    if src.mode in ("1", "L", "RGB", "HSV", "CMYK"):
        eff_alpha = "none"  # no alpha channel: every setting shows the colours
    exp = expected_pixels(at_res, eff_alpha, thr, hexbg, termbg)

    paged_path = None
    if case.get("paged") and tier == "identity":
        # the image under test is one page of a multi-page file whose pages differ in mode
        # (an opaque page before a transparent one, and the other way round)
        import os
        import tempfile

        before = [Image.new(m, src.size, {"RGB": (90, 10, 200), "RGBA": (1, 2, 3, 0), "L": 77, "LA": (9, 130)}[m]) for m in case["paged"]]
        fd, paged_path = tempfile.mkstemp(suffix=".tiff", dir="/var/tmp", prefix="vf-c02-")
        os.close(fd)
        (before + [src])[0].save(paged_path, format="TIFF", save_all=True, append_images=(before + [src])[1:] + [Image.new("RGB", src.size, (5, 6, 7))])
        image = BlockImage.from_file(paged_path, width=W, height=H)
        image.seek(len(before))
        with Image.open(paged_path) as chk:
            chk.seek(len(before))
            same = chk.mode == src.mode and list(chk.getdata()) == list(src.getdata())
        if not same:
            res.count("skipped: the page did not survive the TIFF round trip")
            image.close()
            os.unlink(paged_path)
            return
        res.count("pages of multi-page files with mixed modes")
    elif case.get("redrawn"):
        # the instance has rendered once already, from a picture its owner then drew over
        # in place (same object, size, mode; now the pixels of *src*): the judged render
        # shows the pixels as they are now
        work = src.transpose(Image.ROTATE_180)
        work.info.update(src.info)
        image = BlockImage(work, width=W, height=H)
    else:
        image = BlockImage(src, width=W, height=H)
    alpha_arg = {"none": None, "thr": thr, "termbg": "#", "hex": "#%02x%02x%02x" % (hexbg or (0, 0, 0))}[alpha_mode]
    how = case["how"]
    if case.get("partial"):
        # the terminal was asked for its colours by an earlier render of an opaque picture
        # only, then queries were disabled: whether the background then counts as known
        # or not, one render has to go by one answer
        refresh_queries()
        str(BlockImage(Image.new("RGB", (1, 2), (9, 9, 9)), width=1, height=1))
        term_image.disable_queries()
    if case.get("abort_at"):
        # a render of another picture interrupted (Ctrl-C) somewhere inside the style's
        # render function comes first: nothing of it may show in this one
        from .c01 import aborted_render

        other = BlockImage(Image.new("RGBA", (5, 6), (200, 30, 30, 255)), width=5, height=3)
        if aborted_render(other, case["abort_at"]):
            res.count("renders preceded by an interrupted render")
    try:
        if case.get("redrawn") and not paged_path:
            if _render(case, image, alpha_arg, alpha_mode, thr, how, W, res) is None:
                return
            work.paste(src)
            res.count("renders of an instance whose source was drawn over in place after an earlier render")
        out = _render(case, image, alpha_arg, alpha_mode, thr, how, W, res)
    finally:
        if case.get("partial"):
            term_image.enable_queries()
            refresh_queries()
    if out is None:
        return
    _judge_render(case, env, res, out, exp, at_res, eff_alpha, thr, hexbg, termbg, on_kitty, W, H, tier, mode, alpha_mode, how)
    if paged_path:
        image.close()
        import os

        os.unlink(paged_path)


def _render(case, image, alpha_arg, alpha_mode, thr, how, W, res):
    if how == "split":
        out = image._renderer(image._render_image, alpha_arg, split_cells=True)
        for ln, line in enumerate(out.split("\n")):
            n = len(line.split("\0"))
            if n != W:
                res.violation("C02:split-cells-count", "line %d has %d NUL-separated cells, expected %d" % (ln, n, W), case)
                return None
    elif how == "format":
        spec = "1.1" + {"none": "#", "thr": "#" + ("%.6f" % thr)[1:], "termbg": "##", "hex": alpha_arg}[alpha_mode]
        out = format(image, spec)
    elif how == "str" and alpha_mode == "thr" and abs(thr - 40 / 255) < 1e-9:
        out = str(image)
    else:
        out = image._renderer(image._render_image, alpha_arg)
    return out


def _judge_render(case, env, res, out, exp, at_res, eff_alpha, thr, hexbg, termbg, on_kitty, W, H, tier, mode, alpha_mode, how, second=False):
    vt = VTerm(H, W + 1, "other")
    vt.feed(out)
    got = cells_of(vt, W, H, termbg if on_kitty else None)
    bad = []
    sig = hashlib.blake2b(digest_size=6)
    for r in range(H):
        prev = None
        for c in range(W):
            for half in (0, 1):
                e = exp[(2 * r + half) * W + c]
                if not judge(got[r][c][half], e, on_kitty, termbg):
                    bad.append((r, c, half, got[r][c][half][0], e))
            cur = (exp[(2 * r) * W + c], exp[(2 * r + 1) * W + c])
            kind = 0
            if prev is not None and cur != prev:
                kind = 1 + (cur[0] != prev[0]) + 2 * (cur[1] != prev[1]) + 4 * ((cur[0] is None) != (prev[0] is None)) + 8 * ((cur[1] is None) != (prev[1] is None))
            sig.update(bytes([kind]))
            prev = cur
        sig.update(b"\n")
    if tier == "uniform":
        flat = {got[r][c][h][0] if not (on_kitty and got[r][c][h][1] and got[r][c][h][2] is not None and got[r][c][h][0] is None) else "bg" for r in range(H) for c in range(W) for h in (0, 1)}
        if len(flat) != 1:
            bad.append(("not-uniform", sorted(map(str, flat))[:4]))
    res.count("cells compared", W * H)
    res.count("tier " + tier)
    res.count("alpha " + alpha_mode)
    res.count("mode " + mode)
    if any(isinstance(e, tuple) and e and e[0] == "either" for e in exp):
        res.count("cases with pixels at the threshold rounding point")
    if on_kitty and termbg and any(e is not None and not (e and e[0] == "either") and tuple(e) == termbg for e in exp):
        res.count("cases needing the kitty workaround")
    res.case((tier, mode, alpha_mode, W, H, sig.hexdigest()))
    res.sample(dict(case, rendered_bytes=len(out)))
    if vt.anomalies() or not vt.sgr_default():
        bad.append(("terminal", vt.anomalies(), vt.fg, vt.bg))
    if bad and case.get("partial") and termbg is not None and not second:
        # not the picture of a known background; then it has to be, consistently, the one
        # of an unknown background (black beneath, no kitty work-around)
        res.count("renders with partial knowledge judged against the unknown-background reading")
        exp2 = expected_pixels(at_res, eff_alpha, thr, hexbg, None)
        return _judge_render(dict(case, inconsistent=bad[:2]), env, res, out, exp2, at_res, eff_alpha, thr, hexbg, None, on_kitty, W, H, tier, mode, alpha_mode, how, second=True)
    if bad:
        res.violation(
            "C02:%s:%s" % (tier, alpha_mode),
            "%s %s %s thr=%s termbg=%s kitty=%s %dx%d how=%s%s: %d wrong half-cells, first %r"
            % (tier, mode, alpha_mode, thr, case.get("termbg"), on_kitty, W, H, how, " (colours asked for by an opaque render only, then queries disabled: matches neither the known- nor the unknown-background picture; against the former %r)" % (case.get("inconsistent"),) if second else "", len(bad), bad[:3]),
            case,
        )


def gen(rnd):
    tier = rnd.choice(["identity"] * 5 + ["uniform"] * 2 + ["resampled"] * 3)
    W, H = rnd.choice([(rnd.randint(1, 10), rnd.randint(1, 5)), (rnd.randint(1, 40), rnd.randint(1, 20))])
    alpha_mode = rnd.choice(["thr", "thr", "none", "hex", "termbg"])
    termbg = rnd.choice([None, (0, 0, 0), (255, 255, 255), (rnd.randrange(256), rnd.randrange(256), rnd.randrange(256)), (255, 10, 10)])
    case = dict(
        tier=tier,
        size=[W, H],
        alpha_mode=alpha_mode,
        termbg=list(termbg) if termbg else None,
        img_seed=rnd.getrandbits(32),
        how=rnd.choice(["render", "render", "format", "split", "str"]),
        pattern=rnd.choice([None, "runs", "runs", "noise", "stripes", "alpha-edge", "uniform"]),
        use_termbg=rnd.random() < 0.5,
        partial=rnd.random() < 0.12,
        abort_at=rnd.randint(20, 120) if rnd.random() < 0.1 else None,
        redrawn=rnd.random() < 0.15,
    )
    if alpha_mode == "thr":
        case["thr"] = rnd.choice([0.0, 40 / 255, 40 / 255, 0.5, 0.999, 0.1569, 0.1568, round(rnd.random() * 0.999, 6)])
    if alpha_mode == "hex":
        case["hexbg"] = [rnd.randrange(256), rnd.randrange(256), rnd.randrange(256)]
    if tier == "identity":
        case["mode"] = rnd.choice(["RGBA", "RGBA", "RGB"])
        if rnd.random() < 0.15:
            case["paged"] = [rnd.choice(["RGB", "RGBA", "L", "LA"]) for _ in range(rnd.randint(1, 3))]
    else:
        case["mode"] = rnd.choice(MODES)
        case["src"] = [rnd.randint(1, 60), rnd.randint(1, 60)]
    if tier == "uniform":
        case["colour"] = [rnd.randrange(256), rnd.randrange(256), rnd.randrange(256), rnd.choice([0, 255, 255, 40, 41, 128, 39])]
        if termbg and rnd.random() < 0.4:
            case["colour"][:3] = termbg
    return case


def run_shard(shard, env):
    import traceback

    import term_image

    term_image.set_query_timeout(5.0)  # see vf/lib.py: a late reply must not look like none
    res = Result(shard)
    if "replay" in shard:
        cases = [shard["replay"]]
    else:
        rnd = random.Random("%s/%s/%s" % (shard["seed"], shard["persona"], shard["index"]))

        def stream():
            # consecutive renders in one process: a share of the cases repeats the previous
            # case's size, transparency setting and colours with new pixels, so that anything
            # carried over from one render to the next becomes visible
            prev = None
            for _ in range(shard["count"]):
                case = gen(rnd)
                if prev is not None and rnd.random() < 0.3:
                    for k in ("size", "alpha_mode", "thr", "hexbg", "termbg"):
                        if k in prev:
                            case[k] = prev[k]
                        else:
                            case.pop(k, None)
                    if case["tier"] == "identity":
                        case["mode"] = "RGBA"
                prev = case
                yield case

        cases = stream()
    for case in cases:
        try:
            run_case(case, env, res)
        except Exception as e:
            res.violation("C02:exception:" + type(e).__name__, traceback.format_exc()[-1500:], case)
        if res.too_many():
            break
    return res.as_dict()
