"""C15 -- cached terminal facts never outlive the condition they were computed under."""

from __future__ import annotations

import inspect
import os
import random
import sys
import threading
import time
import traceback

from ..common import Result

ID = "C15"
LEVEL = "exploration"
NEEDS_PTY = True
N_HIST = {"quick": 250, "thorough": 60000}
N_STRESS = {"quick": 20, "thorough": 3000}
RULE = (
    "histories over {resize (cells and/or pixels), enable/disable_win_size_swap, enable/disable_queries, "
    "set_cell_ratio(FIXED | DYNAMIC | float), reads of get_cell_size / get_cell_ratio / a terminal_size_cached "
    "probe / a cached probe / starting a subprocess (odd shards; the library then moves its cache and lock into "
    "shared memory)} on a real pty (pixel size by ioctl, or zero so that the scripted terminal answers "
    "XTWINOPS; half of the shard kinds with an inherited TERM_PROGRAM, which the library goes by while queries are disabled), reads of iterm2- and kitty-style support, compared step by step with a model of what a fresh computation gives; plus thread stress: 2..16 "
    "threads released by a barrier make simultaneous first calls of memoized probes under line-level yield "
    "injection (sys.monitoring) and the body executions are counted; distinct = distinct histories / stress "
    "configurations"
)
ASSUMPTIONS = [
    "pixel-only resizes need not be noticed (caching per terminal size is documented): either the fresh or the "
    "previously cached value is accepted there; while queries are disabled a value cached earlier may be served",
    "AutoCellRatio.is_supported is put back to None (undetermined) at the start of every history (the attribute is "
    "documented as settable); a positive finding may be kept for good, a negative one must not survive enable_queries()",
    "yield injection: LINE events restricted to the code objects of cached_wrapper, terminal_size_cached_wrapper "
    "and get_cell_size; the callback yields or sleeps 50..500 us from a per-thread seeded generator",
]
MIN_EVENTS = {"reads compared with the model": {"quick": 20000, "thorough": 800000}, "concurrent first-call rounds": {"quick": 300, "thorough": 10000}}
SHARDS = 16


def plan(tier, seed):
    # (some shards under a kitty identity: what the text styles derive from the terminal's
    # name -- the kitty background workaround -- is a cached terminal fact too; some with an
    # inherited TERM_PROGRAM, which is what the library goes by while queries are disabled)
    shards = []
    for i in range(SHARDS):
        name = ("foot", "foot", "kitty", "WezTerm")[i % 4]
        kw = dict(cell_px=None, area_px=None, name=name, version=("1.16", "1.16", "0.30.1", "20230712-072601")[i % 4], xtversion=True, fg=[1, 2, 3], bg=[250, 251, 252], kitty_graphics=name == "kitty")
        env_tp = {1: ["WezTerm", "20230712"], 6: ["iTerm2", "3.4.19"], 7: ["vscode", None], 4: ["kitty", "0.31.0"]}.get(i % 8)
        shards.append(dict(persona="other", persona_kw=kw, env_tp=env_tp, seed=seed, index=i, hists=N_HIST[tier], stress=N_STRESS[tier], winsize=[80, 24, 640, 384]))
    return shards


class Model:
    def __init__(self):
        self.term = (80, 24, 640, 384)
        self.swap = False
        self.queries = True
        self.ratio_mode = ("float", 0.5)
        self.xt_cell = None  # what the terminal would answer to XTWINOPS 16
        self.cache = None  # (cols, rows) -> value last served/cached with its provenance
        self.memo = {}  # memoized query helpers: None | "enabled" | "disabled"
        self.support = None  # auto cell ratio support: None (undetermined) | True | False
        self.style_support = None  # iterm2-style support once determined for good (None: not yet)
        self.kitty_support = None  # kitty-style support once determined for good
        self.old_image = None
        self.style_term = ""  # terminal identity the iterm2 style goes by (set when it finds itself supported)
        self.env_tp = None  # inherited (TERM_PROGRAM, TERM_PROGRAM_VERSION)
        self.cached_while_disabled = False

    def fresh_cell(self):
        cols, rows, xp, yp = self.term
        if xp and yp:
            if self.swap:
                xp, yp = yp, xp
            cs = (xp // cols, yp // rows)
            return None if 0 in cs else cs
        if self.queries and self.xt_cell:
            return tuple(self.xt_cell)
        return None

    def invalidate(self):
        self.cache = None

    def lib_name(self, p):
        """(name, version) the library goes by now: the terminal's own answer when the
        name was (or will now be) obtained by query, the inherited environment otherwise.
        Records when the memo gets filled."""
        slot = self.memo.setdefault("read_name", None)
        via_query = (slot != "disabled") if self.queries else (slot == "enabled")
        if slot is None:
            self.memo["read_name"] = "enabled" if self.queries else "disabled"
        if via_query:
            return p.name.lower(), p.version
        return (self.env_tp[0].lower(), self.env_tp[1]) if self.env_tp else (None, None)

    def acceptable_cell(self):
        """Values get_cell_size() may return now."""
        cols, rows = self.term[:2]
        fresh = self.fresh_cell()
        ok = {fresh}
        if self.cache is not None and self.cache[0] == (cols, rows):
            ok |= self.cache[1]  # pixel-only change since, or served while disabled
        return ok

    def note_read(self, value):
        """The library now holds *value* for this terminal size (a set when only a
        ratio was observed and several candidates explain it)."""
        cols, rows = self.term[:2]
        self.cache = ((cols, rows), set(value) if isinstance(value, set) else {value})


def _noop():
    pass


_STARTED = [False]


def start_subprocess(res):
    import multiprocessing as mp

    pr = mp.Process(target=_noop)  # the class the library hooks (a context's own Process class is another one)
    pr.start()
    pr.join(20)
    _STARTED[0] = True
    res.count("subprocesses started between reads")


def run_history(seed, env, res, probes, allow_subprocess=False, env_tp=None):
    import term_image
    from term_image import AutoCellRatio, utils
    from term_image.exceptions import TermImageError

    rnd = random.Random(seed)
    m = Model()
    m.env_tp = env_tp
    for var, val in zip(("TERM_PROGRAM", "TERM_PROGRAM_VERSION"), env_tp or (None, None)):
        if val is None:
            os.environ.pop(var, None)
        else:
            os.environ[var] = val
    p = env.persona
    ops = []
    case = dict(seed=seed, sub=allow_subprocess, after_process_start=_STARTED[0])

    def fail(key, msg):
        res.violation("C15:" + key, "%s [history %s%s]" % (msg, ops[-10:], "; a subprocess had been started before" if case["after_process_start"] or "subprocess" in ops else ""), case)

    # known start state
    env.set_winsize(*m.term)
    p.cell_px = None
    term_image.disable_win_size_swap()
    term_image.disable_queries()
    term_image.enable_queries()
    term_image.set_cell_ratio(0.5)
    AutoCellRatio.is_supported = None  # documented as settable: undetermined
    from term_image.image import ITerm2Image as _I2

    from term_image.image import KittyImage as _KI

    _I2._supported = _KI._supported = None  # (state hygiene between histories: style support undetermined)
    probes.reset()
    sizes_seen = []
    pending = []
    steps = rnd.randint(5, 40)
    for step in range(steps):
        if not pending and rnd.random() < 0.04:
            # a directed stretch: the same fact read while queries are disabled and again
            # after they have been re-enabled
            fact = rnd.choice(["read_kitty_support", "read_support", "read_forced_render", "read_name", "read_colours", "read_on_kitty"])
            pending.extend(["q_off", fact, "q_on", fact])
        op = pending.pop(0) if pending else rnd.choice(["resize", "resize", "resize_back", "resize_back", "pixels", "swap_on", "swap_off", "q_on", "q_off", "ratio", "xt", "read", "read", "read", "read_ratio", "probe", "probe", "probe_resize", "read_colours", "read_name", "read_on_kitty", "read_support", "read_forced_render", "read_kitty_support", "read_interrupted"] + (["subprocess"] if allow_subprocess else []))
        ops.append(op)
        if m.term[:2] not in sizes_seen:
            sizes_seen.append(m.term[:2])
        if op == "resize_back" and not sizes_seen:
            op = ops[-1] = "resize"
        if op == "resize_back":
            # back to a size in cells the terminal had before, with whatever pixel size
            cols, rows = rnd.choice(sizes_seen)
            zero = rnd.random() < 0.3
            cw, ch = rnd.randint(1, 30), rnd.randint(1, 40)
            m.term = (cols, rows, 0 if zero else cols * cw, 0 if zero else rows * ch)
            env.set_winsize(*m.term)
        elif op == "resize":
            cols, rows = rnd.randint(1, 200), rnd.randint(1, 60)
            zero = rnd.random() < 0.3
            cw, ch = rnd.randint(1, 30), rnd.randint(1, 40)
            m.term = (cols, rows, 0 if zero else cols * cw + rnd.randint(0, cols - 1), 0 if zero else rows * ch + rnd.randint(0, rows - 1))
            env.set_winsize(*m.term)
        elif op == "pixels":
            cols, rows = m.term[:2]
            cw, ch = rnd.randint(1, 30), rnd.randint(1, 40)
            m.term = (cols, rows, cols * cw, rows * ch)
            env.set_winsize(*m.term)
        elif op == "subprocess":
            # starting a process makes the library move its cell-size cache (and the terminal
            # lock) into shared memory; nothing observable may change, now or later
            start_subprocess(res)
        elif op == "swap_on":
            term_image.enable_win_size_swap()
            if not m.swap:
                m.swap = True
                m.invalidate()
        elif op == "swap_off":
            term_image.disable_win_size_swap()
            if m.swap:
                m.swap = False
                m.invalidate()
        elif op == "q_on":
            term_image.enable_queries()
            if not m.queries:
                m.queries = True
                m.invalidate()
                m.memo.clear()
                if m.support is False:
                    # "re-enabling queries discards results obtained while they were
                    # disabled": a negative support finding must be re-determined
                    m.support = None
        elif op == "q_off":
            term_image.disable_queries()
            m.queries = False
        elif op == "xt":
            # the terminal's answer to XTWINOPS 16 changes together with a resize
            cols, rows = rnd.randint(1, 200), rnd.randint(1, 60)
            m.xt_cell = rnd.choice([None, (rnd.randint(1, 30), rnd.randint(1, 40))])
            p.cell_px = m.xt_cell
            m.term = (cols, rows, 0, 0)
            env.set_winsize(*m.term)
        elif op == "ratio":
            kind = rnd.choice(["float", "FIXED", "DYNAMIC"])
            if kind == "float":
                v = rnd.choice([0.5, 1.0, round(rnd.uniform(0.1, 3), 3)])
                term_image.set_cell_ratio(v)
                m.ratio_mode = ("float", v)
            else:
                first_use = m.support is None
                acc0 = m.acceptable_cell()
                try:
                    term_image.set_cell_ratio(getattr(AutoCellRatio, kind))
                except TermImageError:
                    if first_use:
                        # the support check read the cell size and got nothing
                        if None not in acc0:
                            fail("auto-ratio-refused", "set_cell_ratio(%s) refused although a fresh cell-size computation gives %s (terminal %s, queries %s, xtwinops %s)" % (kind, sorted(map(str, acc0)), m.term, m.queries, m.xt_cell))
                            return
                        m.support = False
                        m.note_read(None)
                    elif m.support:
                        fail("auto-ratio-refused", "set_cell_ratio(%s) refused although auto cell ratio was found supported earlier" % kind)
                        return
                    # else: found unsupported earlier and nothing has discarded that since
                    continue
                if first_use:
                    m.support = True
                # set_cell_ratio(auto) reads the cell size itself
                acc = m.acceptable_cell()
                if kind == "FIXED":
                    got = term_image.get_cell_ratio()
                    okv = {(c[0] / c[1]) if c else 0.5 for c in acc}
                    if got not in okv:
                        fail("fixed-ratio", "FIXED ratio %r, acceptable %r" % (got, sorted(okv)))
                        return
                    m.ratio_mode = ("float", got)
                    # the read inside may have (re)filled the cache
                    m.note_read({c for c in acc if ((c[0] / c[1]) if c else 0.5) == got})
                else:
                    m.ratio_mode = ("dynamic", None)
                    if first_use:
                        # the support check read (and cached) the cell size
                        m.note_read(acc0 - {None} or acc0)
        elif op == "read_interrupted":
            # Ctrl-C arrives while the library is waiting for the terminal's answer (the
            # pixel size has to be asked for): nothing has been found out, so nothing may
            # have been recorded for the current terminal size
            acc = m.acceptable_cell()
            saved_q = utils.query_terminal

            def interrupted(*a, **k):
                raise KeyboardInterrupt

            utils.query_terminal = interrupted
            try:
                cs = utils.get_cell_size()
            except KeyboardInterrupt:
                res.count("cell-size determinations interrupted")
                continue
            finally:
                utils.query_terminal = saved_q
            # (served from the cache or found by ioctl: an ordinary read)
            got = tuple(cs) if cs else None
            res.count("reads compared with the model")
            if got not in acc:
                fail("stale-cell-size", "get_cell_size() = %r, acceptable %r (terminal %s)" % (got, sorted(map(str, acc)), m.term))
                return
            m.note_read(got)
        elif op == "read":
            acc = m.acceptable_cell()
            cs = utils.get_cell_size()
            got = tuple(cs) if cs else None
            res.count("reads compared with the model")
            if got not in acc:
                fail("stale-cell-size", "get_cell_size() = %r, a fresh computation gives %r (terminal %s, swap %s, queries %s, xtwinops %s); acceptable %r" % (got, m.fresh_cell(), m.term, m.swap, m.queries, m.xt_cell, sorted(map(str, acc))))
                return
            m.note_read(got)
        elif op == "read_ratio":
            got = term_image.get_cell_ratio()
            res.count("reads compared with the model")
            if m.ratio_mode[0] == "float":
                if got != m.ratio_mode[1]:
                    fail("cell-ratio", "get_cell_ratio() = %r, set to %r" % (got, m.ratio_mode[1]))
                    return
            else:
                acc = m.acceptable_cell()
                okv = {(c[0] / c[1]) if c else 0.5 for c in acc}
                if got not in okv:
                    fail("stale-cell-ratio", "DYNAMIC ratio %r, acceptable %r (terminal %s)" % (got, sorted(okv), m.term))
                    return
                m.note_read({c for c in acc if ((c[0] / c[1]) if c else 0.5) == got})
        elif op == "read_on_kitty":
            # derived from the terminal's name: follows the fate of that query result
            from term_image.image import BlockImage

            got = BlockImage._is_on_kitty()
            res.count("reads compared with the model")
            slot = m.memo.get("read_name")
            want = m.lib_name(p)[0] == "kitty"
            if got != want:
                fail("stale-query-result", "TextImage._is_on_kitty() = %r, a fresh computation gives %r (terminal says %r; queries %s, name obtained while %s)" % (got, want, p.name, "enabled" if m.queries else "disabled", slot))
                return
        elif op in ("read_support", "read_forced_render"):
            # iterm2-style support follows from the terminal's name (WezTerm / iTerm2:
            # supported), which is the inherited TERM_PROGRAM while queries are disabled: a
            # finding made with queries enabled may be kept for good, one made while they
            # were disabled must not survive enable_queries()
            from term_image.image import ITerm2Image

            slot = m.memo.get("read_name")

            def expect_support():
                if m.style_support is not None:
                    return m.style_support  # determined with queries enabled
                name = m.lib_name(p)[0]
                want = name in ("wezterm", "iterm2")
                m.style_term = name if want else ""  # the identity the style now goes by
                if m.queries:
                    m.style_support = want
                return want

            if op == "read_support":
                got = ITerm2Image.is_supported()
                want = expect_support()
                res.count("reads compared with the model")
                if got != want:
                    fail("stale-query-result", "ITerm2Image.is_supported() = %r, a fresh determination gives %r (terminal says %r, TERM_PROGRAM %r; queries %s, name obtained while %s)" % (got, want, p.name, m.env_tp and m.env_tp[0], "enabled" if m.queries else "disabled", slot))
                    return
            else:
                # the documented way to use a style the terminal is not known to support:
                # what is rendered then still depends on the identity the style goes by
                # (WezTerm: cells erased beneath the image) -- a cached terminal fact too
                from PIL import Image

                acc = m.acceptable_cell()
                ITerm2Image.forced_support = True
                try:
                    if m.old_image is not None and rnd.random() < 0.5:
                        # an image made earlier in the history (under whatever settings
                        # were in force then) is rendered now
                        im = m.old_image
                        res.count("renders of an image created earlier in the history")
                    else:
                        im = ITerm2Image(Image.new("RGB", (2, 2)), width=2, height=1)
                        if m.old_image is None:
                            m.old_image = im
                    expect_support()  # (instantiation / rendering goes by the current determination)
                    out = format(im, "1.1+W")
                finally:
                    ITerm2Image.forced_support = False
                m.note_read(set(acc))  # (a graphics render reads the cell size: one of these is now held)
                res.count("reads compared with the model")
                erased = "\x1b[2X" in out
                if erased != (m.style_term == "wezterm"):
                    fail("stale-query-result", "an iterm2 render with forced support %s the cells beneath it (WezTerm work-around); a fresh determination finds the identity %r (terminal says %r, TERM_PROGRAM %r; queries %s, name obtained while %s)" % ("erases" if erased else "does not erase", m.style_term, p.name, m.env_tp and m.env_tp[0], "enabled" if m.queries else "disabled", slot))
                    return
        elif op == "read_kitty_support":
            # kitty-style support needs the terminal's reply: never while queries are
            # disabled, and what was found then must not survive enable_queries()
            from term_image.image import KittyImage

            got = KittyImage.is_supported()
            res.count("reads compared with the model")
            slot = m.memo.get("read_name")
            if m.kitty_support is not None:
                want = m.kitty_support
            elif not m.queries:
                want = False
                m.lib_name(p)  # (the determination asks for the terminal's name first)
            else:
                name, version = m.lib_name(p)
                want = name != "iterm2" and bool(p.kitty_graphics) and name == "kitty"
                m.kitty_support = want
            if got != want:
                fail("stale-query-result", "KittyImage.is_supported() = %r, a fresh determination gives %r (terminal says %r, TERM_PROGRAM %r; queries %s, name obtained while %s)" % (got, want, p.name, m.env_tp and m.env_tp[0], "enabled" if m.queries else "disabled", slot))
                return
        elif op in ("read_colours", "read_name"):
            # memoized query results: what was obtained while queries were disabled must
            # not survive re-enabling them
            fn, scripted, default = (utils.get_fg_bg_colors, ((1, 2, 3), (250, 251, 252)), (None, None)) if op == "read_colours" else (utils.get_terminal_name_version, (p.name.lower(), p.version), (m.env_tp[0].lower(), m.env_tp[1]) if m.env_tp else (None, None))
            got = tuple(fn())
            res.count("reads compared with the model")
            slot = m.memo.setdefault(op, None)
            if m.queries:
                okv = {scripted} if slot in (None, "enabled") else {scripted}
                if slot == "disabled":
                    okv = {default}  # cached while disabled and queries never re-enabled since
            else:
                okv = {default} if slot in (None, "disabled") else {scripted}
            if got not in okv:
                fail("stale-query-result", "%s() = %r, acceptable %r (queries %s, memo filled while %s)" % (fn.__name__, got, sorted(map(str, okv)), "enabled" if m.queries else "disabled", slot))
                return
            if slot is None:
                m.memo[op] = "enabled" if m.queries else "disabled"
        elif op == "probe_resize":
            # the terminal is resized while the memoized body is running: whatever the call
            # returns, the value it caches belongs to the size the body saw, so the next
            # call (new size) must compute again
            cols, rows = rnd.randint(1, 200), rnd.randint(1, 60)
            if (cols, rows) == m.term[:2]:
                cols += 1
            new_term = (cols, rows, cols * 7, rows * 15)
            probes.ts_probe._invalidate_terminal_size_cache()
            old = m.term[:2]
            probes.resize_in_body = lambda: env.set_winsize(*new_term)
            v = probes.ts_probe()
            probes.resize_in_body = None
            m.term = new_term
            res.count("resizes landing inside a memoized body")
            if v[1] != old:
                fail("terminal-size-probe", "body saw %s, terminal was %s" % (v[1], old))
                return
            probes.ts_last = old
        elif op == "probe":
            cols, rows = m.term[:2]
            n0 = probes.ts_calls
            v = probes.ts_probe()
            res.count("reads compared with the model")
            if v[1] != (cols, rows):
                fail("stale-terminal-size-cache", "terminal_size_cached probe returned the value for %s on a %s terminal" % (v[1], (cols, rows)))
                return
            ran = probes.ts_calls - n0
            expect_run = probes.ts_last != (cols, rows)
            if ran != (1 if expect_run else 0):
                fail("terminal-size-cache-body-count", "body ran %d times, expected %d (terminal size %s)" % (ran, int(expect_run), "changed" if expect_run else "unchanged"))
                return
            probes.ts_last = (cols, rows)
    res.case(("history", tuple(ops)))


class Probes:
    def __init__(self):
        from term_image import utils

        self.ts_calls = 0
        self.ts_last = None
        self.c_calls = {}
        self.lock = threading.Lock()

        self.resize_in_body = None

        @utils.terminal_size_cached
        def ts_probe():
            self.ts_calls += 1
            time.sleep(0)
            ts = tuple(utils.get_terminal_size())
            if self.resize_in_body:
                self.resize_in_body()
            return (self.ts_calls, ts)

        self.c_hold = None

        @utils.cached
        def c_probe(*args, **kw):
            key = (args, tuple(kw.items()))
            with self.lock:
                self.c_calls[key] = self.c_calls.get(key, 0) + 1
            time.sleep(0)
            if self.c_hold:
                self.c_hold()
            # (a memoized result may be anything: "undetermined" is None for the library's
            # own cell size; falsy values are results like any other)
            return {1: None, 2: 0}.get(args[0] if args else None, object())

        self.ts_probe, self.c_probe = ts_probe, c_probe

    def reset(self):
        self.ts_probe._invalidate_terminal_size_cache()
        self.ts_last = None


class YieldInjector:
    TOOL = 3

    def __init__(self, seed):
        self.seed = seed
        self.local = threading.local()
        self.events = 0

    def codes(self):
        import term_image
        from term_image import utils

        colours = getattr(utils, "_get_fg_bg_colors", utils.get_fg_bg_colors)
        return [colours.__code__, inspect.unwrap(utils.get_cell_size).__code__, self_ts_code(), term_image.enable_queries.__code__]

    def cb(self, code, line):
        rnd = getattr(self.local, "rnd", None)
        if rnd is None:
            rnd = self.local.rnd = random.Random("%s/%s" % (self.seed, threading.get_ident()))
        self.events += 1
        r = rnd.random()
        if r < 0.4:
            time.sleep(0)
        elif r < 0.55:
            time.sleep(rnd.uniform(0.00005, 0.0005))

    def __enter__(self):
        mon = sys.monitoring
        mon.use_tool_id(self.TOOL, "vf-yield")
        mon.register_callback(self.TOOL, mon.events.LINE, self.cb)
        for c in self.codes():
            mon.set_local_events(self.TOOL, c, mon.events.LINE)
        return self

    def __exit__(self, *a):
        mon = sys.monitoring
        for c in self.codes():
            mon.set_local_events(self.TOOL, c, 0)
        mon.register_callback(self.TOOL, mon.events.LINE, None)
        mon.free_tool_id(self.TOOL)


_ts_code = [None]


def self_ts_code():
    return _ts_code[0]


def stress_round(seed, env, res, probes):
    import term_image
    from term_image import utils

    rnd = random.Random(seed)
    n = rnd.randint(2, 16)
    barrier = threading.Barrier(n)
    probes.c_probe._invalidate_cache()
    probes.c_calls.clear()
    probes.ts_probe._invalidate_terminal_size_cache()
    ts0 = probes.ts_calls
    cols, rows, cw, ch = rnd.randint(2, 120), rnd.randint(2, 50), rnd.randint(1, 20), rnd.randint(1, 30)
    env.set_winsize(cols, rows, cols * cw, rows * ch)
    term_image.enable_win_size_swap()
    term_image.disable_win_size_swap()
    nkeys = rnd.randint(1, 4)
    results = [None] * n
    errors = []

    def worker(i):
        try:
            barrier.wait(5)
            a = probes.c_probe(i % nkeys, k=(i % nkeys) * 2)
            b = probes.ts_probe()
            c = utils.get_cell_size()
            results[i] = (i % nkeys, id(a), b, tuple(c) if c else None)
        except Exception as e:
            errors.append(repr(e))

    with YieldInjector(seed) as inj:
        ths = [threading.Thread(target=worker, args=(i,)) for i in range(n)]
        for t in ths:
            t.start()
        for t in ths:
            t.join(20)
    res.count("concurrent first-call rounds")
    res.count("yield-injection line events", inj.events)
    res.count("threads released", n)
    res.case(("stress", n, nkeys, cols, rows))
    case = dict(kind="stress", seed=seed)
    if errors or any(r is None for r in results):
        res.inconclusive.append("stress round %s: %s" % (seed, errors[:2] or "a thread did not finish"))
        return
    for key, cnt in probes.c_calls.items():
        if cnt != 1:
            res.violation("C15:cached-body-ran-twice", "memoized body ran %d times for arguments %r under %d concurrent first calls" % (cnt, key, n), case)
            return
    ids = {}
    for k, ida, b, c in results:
        ids.setdefault(k, set()).add(ida)
    if any(len(v) != 1 for v in ids.values()):
        res.violation("C15:cached-different-results", "concurrent callers with equal arguments got different memoized objects", case)
        return
    if probes.ts_calls - ts0 != 1:
        res.violation("C15:terminal-size-cache-body-ran-twice", "terminal_size_cached body ran %d times under %d concurrent first calls" % (probes.ts_calls - ts0, n), case)
        return
    if {r[3] for r in results} != {(cw, ch)}:
        res.violation("C15:cell-size-under-threads", "concurrent get_cell_size() results %r, expected %r" % ({r[3] for r in results}, (cw, ch)), case)
        return
    # an invalidation (what enable_queries() does) arriving while a first call is still
    # inside the body: once both are over, the value computed before must not be served
    probes.c_probe._invalidate_cache()
    probes.c_calls.clear()
    entered, release = threading.Event(), threading.Event()

    def hold():
        entered.set()
        release.wait(5)

    probes.c_hold = hold
    ta = threading.Thread(target=lambda: probes.c_probe("race", k=seed % 7))
    ta.start()
    if not entered.wait(5):
        probes.c_hold = None
        res.inconclusive.append("invalidate race %s: body not entered" % seed)
        return
    probes.c_hold = None
    tb = threading.Thread(target=probes.c_probe._invalidate_cache)
    tb.start()
    time.sleep(rnd.uniform(0.001, 0.01))
    release.set()
    ta.join(10)
    tb.join(10)
    probes.c_probe("race", k=seed % 7)
    res.count("invalidations racing with a first call")
    ran = sum(probes.c_calls.values())
    if ran == 2:
        enable_race(seed, env, res, case)
    if ran != 2:
        res.violation("C15:invalidation-lost", "an invalidation issued while a first call was inside the memoized body was lost: the body ran %d time(s) over [call (held inside the body), invalidate, call]; the value computed before the invalidation is still served" % ran, case)


def enable_race(seed, env, res, case):
    """enable_queries() racing with calls of the memoized query helpers from other threads:
    once it has returned, nothing obtained while queries were disabled may be served -- a
    call that saw them disabled must not be able to slip its result in behind the
    invalidation."""
    import term_image
    from term_image import utils

    p = env.persona
    term_image.enable_queries()
    term_image.disable_queries()  # (memos empty, queries off)
    n = 2 + seed % 3
    barrier = threading.Barrier(n + 1)
    done = threading.Event()
    errors = []

    def reader():
        try:
            barrier.wait(5)
            while not done.is_set():
                utils.get_terminal_name_version()
                utils.get_fg_bg_colors()
                time.sleep(0)
        except Exception as e:
            errors.append(repr(e))

    def enabler():
        try:
            barrier.wait(5)
            time.sleep((seed % 5) * 0.0002)
            term_image.enable_queries()
        except Exception as e:
            errors.append(repr(e))
        finally:
            done.set()

    with YieldInjector(seed + 1) as inj:
        ths = [threading.Thread(target=reader) for _ in range(n)] + [threading.Thread(target=enabler)]
        for t in ths:
            t.start()
        for t in ths:
            t.join(30)
    res.count("yield-injection line events", inj.events)
    if errors or any(t.is_alive() for t in ths):
        done.set()
        res.inconclusive.append("enable race %s: %s" % (seed, errors[:2] or "a thread did not finish"))
        return
    res.count("enable_queries() calls racing with memoized reads")
    got = (tuple(utils.get_terminal_name_version()), tuple(utils.get_fg_bg_colors()))
    want = ((p.name.lower(), p.version), (tuple(p.fg), tuple(p.bg)))
    if got != want:
        res.violation("C15:stale-query-result", "after enable_queries() returned (other threads were reading meanwhile): name/version and colours %r, the terminal says %r -- a result obtained while queries were disabled is still served" % (got, want), case)


def run_shard(shard, env):
    res = Result(shard)
    try:
        import term_image  # noqa: F401

        probes = Probes()
        _ts_code[0] = probes.ts_probe.__code__
        term_image.set_query_timeout(10.0)  # generous: a late reply must not look like none
        if "replay" in shard:
            c = shard["replay"]
            if c.get("kind") == "stress":
                stress_round(c["seed"], env, res, probes)
            else:
                if c.get("after_process_start"):
                    start_subprocess(res)
                run_history(c["seed"], env, res, probes, c.get("sub", False), shard.get("env_tp"))
            return res.as_dict()
        rnd = random.Random("%s/c15/%s" % (shard["seed"], shard["index"]))
        for _ in range(shard["hists"]):
            seed = rnd.getrandbits(40)
            run_history(seed, env, res, probes, shard["index"] % 2 == 1, shard.get("env_tp"))
            if len(res.samples) < 2:
                res.sample(dict(seed=seed, kind="history"))
            if res.too_many():
                break
        for _ in range(shard["stress"]):
            stress_round(rnd.getrandbits(40), env, res, probes)
            if res.too_many():
                break
    except Exception:
        res.inconclusive.append(traceback.format_exc()[-2000:])
    return res.as_dict()
