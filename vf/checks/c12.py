"""C12 -- terminal queries report what the terminal said, whatever the timing."""

from __future__ import annotations

import os
import random
import time
import traceback

from ..common import Result

ID = "C12"
LEVEL = "exploration"
NEEDS_PTY = True
N_SHARDS = {"quick": 192, "thorough": 3200}
VALUE_CASES = 8
SHARD_TIMEOUT = {"quick": 300, "thorough": 900}
RULE = (
    "one fresh process per scripted terminal (identity / version strings incl. non-numeric ones, konsole and kitty "
    "around their minimum versions, XTVERSION in 'name(version)' or 'name version' form or unsupported with "
    "TERM_PROGRAM set, kitty graphics reply or not, DA1 or not): style support and automatic style selection are "
    "compared with the documented decision table; then, in the same process, value cases re-script the terminal "
    "(rgb: replies with 1..4 hex digits per component, ST or BEL, replies delayed by up to 0.4 x timeout or arriving "
    "with no latency at all (before the library's next system call), every "
    "subset of unsupported queries, pixel size by ioctl / XTWINOPS 16 / XTWINOPS 14 / not at all, window-size swap, "
    "queries disabled) and compare colours, name, version and cell size with the script, the unread-input count "
    "with zero and the elapsed time with the timeout; distinct = distinct scripted-terminal descriptors"
)
ASSUMPTIONS = [
    "each supported query is answered with one well-formed reply written as a unit, in order, after a scripted delay "
    "shorter than the timeout (the domain the property quantifies over)",
    "kitty support needs the graphics reply 'OK', not a DA1 reply; 'no unread bytes' is only asserted when the "
    "terminal answers DA1 (the library's end-of-replies marker)",
    "konsole + kitty protocol is only scripted consistently (graphics reply iff version >= 22.04)",
    "a mismatch that could be caused by a late reply on a loaded machine is re-run up to two more times with a "
    "longer timeout and only reported if it reproduces every time; elapsed-time bounds use generous slack",
]
MIN_EVENTS = {"query results compared with the script": {"quick": 3000, "thorough": 50000}, "support decisions compared with the table": {"quick": 500, "thorough": 9000}}

NAMES = [
    ("kitty", ["0.32.2", "0.20.0", "0.19.3", "0.25.0", "0.26.1", "nightly", "0.21", "1.0.0", "0.20.0-rc1", "0.20", "0.19", "1"]),
    ("Konsole", ["22.04.0", "22.04.3", "23.08.1", "21.12.3", "22.03.90", "dev", "22.04", "22.03", "23"]),
    ("WezTerm", ["20230712-072601-f4abf8fd", "nightly"]),
    ("iTerm2", ["3.4.19", "3.5.0beta"]),
    ("xterm", ["388"]),
    ("foot", ["1.16.2"]),
    # (versions with a remark in parentheses)
    ("contour", ["0.3.12", "0.3.12.262 (release)", "0.4.0(beta)"]),
    ("VTE", ["7200"]),
    # names that are not plain words, and a terminal that gives no version
    ("xterm.js", ["5.3.0"]),
    ("st-term", ["0.9", None]),
    ("foot", [None]),
]


def version_tuple(v):
    """'0.20' is the same version as '0.20.0' (compared component-wise, missing = 0)."""
    if v is None:
        return None
    try:
        t = tuple(map(int, v.split(".")))
    except ValueError:
        return None
    return t + (0,) * (3 - len(t))


def plan(tier, seed):
    rnd = random.Random("c12-plan-%s" % seed)
    shards = []
    for i in range(N_SHARDS[tier]):
        name, versions = NAMES[i % len(NAMES)] if rnd.random() < 0.8 else rnd.choice(NAMES)
        version = rnd.choice(versions)
        low = name.lower()
        vt = version_tuple(version)
        xt = rnd.random() < 0.85
        kw = dict(
            name=name,
            version=version,
            xtversion=xt,
            xtversion_style=rnd.choice(["paren", "space"]),
            da1=rnd.random() < 0.9,
            kitty_graphics=False,
        )
        if low == "kitty":
            kw["kitty_graphics"] = rnd.random() < 0.9
        elif low == "konsole":
            kw["kitty_graphics"] = bool(vt and vt >= (22, 4, 0))
        elif low in ("wezterm",):
            kw["kitty_graphics"] = rnd.random() < 0.3  # wezterm answers the kitty query too
        elif low in ("foot", "contour"):
            kw["kitty_graphics"] = rnd.random() < 0.3
        if rnd.random() < 0.08:
            # the protocol is known but the query is refused: a well-formed error reply
            kw["kitty_graphics"] = rnd.choice(["EINVAL:Unsupported action: q", "ENOTSUPPORTED:graphics are switched off", "EBADF:no such channel"])
        shard = dict(persona="other", persona_kw=kw, seed=seed, index=i, env_term_program=rnd.choice([None, None, ("tmux", "3.3a"), ("vscode", None)]) if xt else rnd.choice([None, (name, version), ("Apple_Terminal", "440"), (name, None)]), timeout=rnd.choice([0.25, 0.4]))
        # a quarter of the processes first select a style while queries are disabled (what a
        # program does that asks before its UI is up) and enable them afterwards: what the
        # terminal then says decides, not what was concluded without asking it
        shard["disabled_first"] = rnd.random() < 0.25
        shards.append(shard)
    # a fixed set of corner identities, in every run
    def fixed(**kw):
        d = dict(name="foot", version="1.16.2", xtversion=True, xtversion_style="paren", da1=True, kitty_graphics=False)
        d.update(kw)
        return d

    corners = [
        (fixed(name="Konsole", version=None, xtversion=False, kitty_graphics=False), ("Konsole", None)),
        (fixed(name="Konsole", version=None, xtversion=False, kitty_graphics=True), ("Konsole", None)),
        (fixed(name="kitty", version=None, xtversion=False, kitty_graphics=True), ("kitty", None)),
        (fixed(name="xterm.js", version="5.3.0"), None),
        (fixed(name="st-term", version="0.9", xtversion_style="space"), None),
        (fixed(name="contour", version="0.3.12.262 (release)", xtversion_style="space"), None),
        (fixed(name="contour", version="0.4.0(beta)", xtversion_style="paren"), None),
        (fixed(name="Konsole", version="22.12.3 (KDE Gear 22.12)", xtversion_style="space", kitty_graphics=True), None),
        (fixed(name="foot", version=None), None),
        (fixed(name="kitty", version="0.30.1", kitty_graphics="EINVAL:Unsupported action: q"), None),
        (fixed(name="foot", version=None), ("tmux", "3.3a")),
        (fixed(name="Konsole", version=None, xtversion_style="space", kitty_graphics=True), ("tmux", "23.08.1")),
        (fixed(name="WezTerm", version="20230712-072601-f4abf8fd", xtversion_style="space"), ("vscode", "1.90.0")),
        (fixed(name="Konsole", version="23.08.1", xtversion_style="space", kitty_graphics="ENOTSUPPORTED:c"), None),
    ]
    for j, (kw, tp) in enumerate(corners):
        shards.append(dict(persona="other", persona_kw=kw, seed=seed, index=len(shards), env_term_program=tp, timeout=0.4, disabled_first=j % 3 == 2))
    return shards


def expected_support(name, version, kitty_graphics):
    """Documented decision table -> (kitty, iterm2)."""
    low = name.lower() if name else None
    vt = version_tuple(version) if version else None
    kitty = False
    if low == "iterm2":
        kitty = False
    elif kitty_graphics is True:  # an error reply is an answer, not support
        if low == "kitty":
            kitty = bool(vt and vt >= (0, 20, 0))
        elif low == "konsole":
            kitty = True
    iterm2 = False
    if low in ("iterm2", "wezterm"):
        iterm2 = True
    elif low == "konsole":
        iterm2 = bool(vt and vt >= (22, 4, 0))
    return kitty, iterm2


def support_case(shard, env, res):
    import term_image
    from term_image import image as ti
    from term_image.image import BlockImage, ITerm2Image, KittyImage

    kw = shard["persona_kw"]
    # a terminal that answers DA1 ends every query early, so a generous timeout costs nothing
    # and a merely slow machine cannot change a decision; one that does not costs the full
    # timeout per query
    support_timeout = 5.0 if kw["da1"] else max(1.0, shard["timeout"])
    term_image.set_query_timeout(support_timeout)
    name, version = kw["name"], kw["version"]
    tp = shard.get("env_term_program")
    if tp:
        # (the environment may describe another program -- a multiplexer, an ssh client --
        # also when the terminal answers for itself)
        os.environ["TERM_PROGRAM"] = tp[0]
        if tp[1] is None:
            os.environ.pop("TERM_PROGRAM_VERSION", None)
        else:
            os.environ["TERM_PROGRAM_VERSION"] = tp[1]
    if not kw["xtversion"]:
        name, version = tp if tp else (None, None)
    if shard.get("disabled_first"):
        term_image.disable_queries()
        try:
            ti.auto_image_class()
            ti.AutoImage
        finally:
            term_image.enable_queries()
        res.count("support detections preceded by a selection made with queries disabled")
    t0 = time.monotonic()
    try:
        auto = ti.auto_image_class()
        got = (KittyImage.is_supported(), ITerm2Image.is_supported())
    except Exception as e:
        # whatever the terminal says (or does not say), detection falls back to defaults
        res.violation("C12:support-detection-raised", "%s: %s [%s]" % (type(e).__name__, e, dict(kw, env=shard.get("env_term_program"))), dict(kind="support", shard=shard))
        raise
    dt = time.monotonic() - t0
    exp = expected_support(name, version, kw["kitty_graphics"])
    exp_auto = KittyImage if exp[0] else ITerm2Image if exp[1] else BlockImage
    res.count("support decisions compared with the table", 3)
    desc = dict(name=name, version=version, xtversion=kw["xtversion"], style=kw["xtversion_style"], da1=kw["da1"], kitty_graphics=kw["kitty_graphics"])
    res.case(("support", str(desc)))
    res.sample(dict(desc, kitty=got[0], iterm2=got[1], auto=auto.__name__, seconds=round(dt, 3)))
    errs = []
    if got != exp:
        errs.append(("support", "kitty/iterm2 support %s, documented %s" % (got, exp)))
    if auto is not exp_auto and got == exp:
        errs.append(("auto-selection", "auto_image_class() chose %s, most capable supported style is %s" % (auto.__name__, exp_auto.__name__)))
    if kw["da1"]:
        time.sleep(0.01)
        n = env.pending_input()
        if n:
            errs.append(("unread-reply-bytes", "%d reply bytes left unread after support detection" % n))
    if name and name.lower() == "iterm2" and "kitty" in env.queries:
        # "The graphics query for support detection messes up iTerm2's window title"
        errs.append(("kitty-query-sent-to-iterm2", "the kitty graphics query was sent to a terminal that identified itself as iTerm2"))
    # bounded progress: at most one timeout per query issued (3 queries) plus slack
    limit = (3 * support_timeout if not kw["da1"] else 0) + 3.0
    if dt > limit:
        res.inconclusive.append("support detection took %.2fs (> %.2fs): watchdog, not a verdict" % (dt, limit))
    for k, m in errs:
        res.violation("C12:" + k, "%s [%s]" % (m, desc), dict(kind="support", shard=shard))
    return name, version


def rgb_reply(rnd, digits):
    # XParseColor: every component has 1..4 hex digits of its own (rgb:<r>/<g>/<b> with
    # r, g, b := h | hh | hhh | hhhh); terminals usually use one width, the grammar does not
    widths = [digits] * 3 if rnd.random() < 0.7 else [rnd.randint(1, 4) for _ in range(3)]
    comps = ["%0*x" % (w, rnd.getrandbits(4 * w)) for w in widths]
    if rnd.random() < 0.3:
        comps = [rnd.choice(["0" * w, "f" * w, "F" * w, "8" + "0" * (w - 1)]) for w in widths]
    exp = tuple(int(c, 16) * 255 // ((1 << (4 * len(c))) - 1) for c in comps)
    return comps, exp


class InstantReplies:
    """Stand-in for the ``os`` name in term_image.utils: every write to the terminal returns
    only after the scripted terminal has seen it and written its replies -- a terminal with
    no latency at all (the replies are there before the library's next system call)."""

    def __init__(self, env):
        self._env = env

    def write(self, fd, data):
        n = os.write(fd, data)
        try:
            self._env.sync(10)
        except Exception:
            pass
        return n

    def __getattr__(self, name):
        return getattr(os, name)


def value_case(rnd, shard, env, res, name, version, attempt=0):
    import term_image
    from term_image import utils

    p = env.persona
    timeout = shard["timeout"] * (1, 3, 25)[attempt]  # the last attempt rules out a merely slow machine
    term_image.set_query_timeout(timeout)
    digits = rnd.randint(1, 4)
    fgc, fg_exp = rgb_reply(rnd, digits)
    bgc, bg_exp = rgb_reply(rnd, rnd.randint(1, 4) if rnd.random() < 0.3 else digits)
    fg_on, bg_on = rnd.random() < 0.85, rnd.random() < 0.85
    p.digits = digits
    p.fg = fgc if fg_on else None
    p.bg = bgc if bg_on else None
    p.osc_term = rnd.choice(["ST", "BEL"])
    delays = rnd.random() < 0.5
    # reply *offsets* (from the moment the query is seen) lie within 0.4 x timeout: the
    # budget is split between the replies of one query burst
    budget = rnd.uniform(0, 0.4 * timeout)
    shares = {k: rnd.choice([0, 0, 1, 2]) for k in ("fg", "bg", "da1", "xtversion", "cell_px", "area_px", "kitty")}
    plan_d = {}
    if delays:

        def delay(kind):
            group = {"fg": ("fg", "bg", "da1"), "bg": ("fg", "bg", "da1"), "xtversion": ("xtversion", "da1"), "cell_px": ("cell_px", "area_px", "da1"), "area_px": ("cell_px", "area_px", "da1")}.get(kind, ("fg", "bg", "xtversion", "cell_px", "area_px", "da1"))
            tot = sum(shares[g] for g in group) or 1
            d = budget * shares[kind] / tot
            plan_d[kind] = d
            return d

        p.delay = delay
    else:
        p.delay = None
    cols, rows = rnd.randint(1, 200), rnd.randint(1, 60)
    cw, ch = rnd.randint(1, 30), rnd.randint(1, 40)
    px_mode = rnd.choice(["ioctl", "ioctl", "xtwinops16", "xtwinops14", "none"])
    extra = (rnd.randint(0, cols - 1), rnd.randint(0, rows - 1))
    swap = rnd.random() < 0.25
    if px_mode == "ioctl":
        xp, yp = cols * cw + extra[0], rows * ch + extra[1]
        env.set_winsize(cols, rows, *((yp, xp) if swap else (xp, yp)))
        p.cell_px = p.area_px = None
        cell_exp = (cw, ch)
    else:
        env.set_winsize(cols, rows, 0, 0)
        p.cell_px = p.area_px = None
        if px_mode == "xtwinops16":
            p.cell_px = (cw, ch)
            p.area_px = (1, 1) if rnd.random() < 0.5 else None
            cell_exp = (cw, ch)
        elif px_mode == "xtwinops14":
            xp, yp = cols * cw + extra[0], rows * ch + extra[1]
            p.area_px = (yp, xp) if swap else (xp, yp)
            cell_exp = (cw, ch)
        else:
            cell_exp = None
    (term_image.enable_win_size_swap if swap and px_mode in ("ioctl", "xtwinops14") else term_image.disable_win_size_swap)()
    disabled = rnd.random() < 0.12
    # drop everything cached (public API), then disable if this case wants it
    term_image.disable_queries()
    term_image.enable_queries()
    if disabled:
        term_image.disable_queries()
    env.flush_input()
    q0 = len(env.queries)
    errs = []
    instant = not delays and rnd.random() < 0.4
    saved_os = utils.os
    if instant:
        utils.os = InstantReplies(env)
        res.count("value cases with zero-latency replies")
    try:
        t0 = time.monotonic()
        colours = utils.get_fg_bg_colors()
        t1 = time.monotonic()
        nv = utils.get_terminal_name_version()
        t2 = time.monotonic()
        cell = utils.get_cell_size()
        t3 = time.monotonic()
    finally:
        utils.os = saved_os
    res.count("query results compared with the script", 3)
    if disabled:
        exp_col = (None, None)
        exp_nv = (os.environ.get("TERM_PROGRAM") and os.environ["TERM_PROGRAM"].lower(), os.environ.get("TERM_PROGRAM_VERSION"))
        exp_cell = cell_exp if px_mode == "ioctl" else None
        if len(env.queries) != q0:
            errs.append(("queried-while-disabled", "queries were sent although queries are disabled: %s" % env.queries[q0:]))
    else:
        exp_col = (fg_exp if fg_on else None, bg_exp if bg_on else None)
        exp_nv = (name and name.lower(), version) if p.xtversion else (os.environ.get("TERM_PROGRAM") and os.environ["TERM_PROGRAM"].lower(), os.environ.get("TERM_PROGRAM_VERSION"))
        exp_cell = cell_exp
    timing_sensitive = not disabled
    if colours != exp_col:
        errs.append(("colours", "get_fg_bg_colors() = %r, terminal said fg=%s bg=%s (%d digits) -> %r" % (colours, p.fg, p.bg, digits, exp_col)))
    if tuple(nv) != tuple(exp_nv):
        errs.append(("name-version", "get_terminal_name_version() = %r, scripted %r" % (nv, exp_nv)))
    got_cell = tuple(cell) if cell else None
    if got_cell != exp_cell:
        errs.append(("cell-size", "get_cell_size() = %r, expected %r (%s, swap=%s, %dx%d)" % (got_cell, exp_cell, px_mode, swap, cols, rows)))
    if p.da1 and not disabled:
        time.sleep(0.005)
        n = env.pending_input()
        if n:
            errs.append(("unread-reply-bytes", "%d reply bytes left unread" % n))
    # bounded progress instead of "never blocks": each call may wait for one timeout
    # when the terminal does not answer DA1, never much longer
    slack = 1.5
    for label, dt, nq in (("colours", t1 - t0, 2), ("name-version", t2 - t1, 2), ("cell-size", t3 - t2, 1)):
        lim = (nq * timeout if not p.da1 else budget + 0.05) + slack
        if disabled:
            lim = 0.5
        if dt > lim:
            res.inconclusive.append("%s took %.2fs (limit %.2fs)" % (label, dt, lim))
    p.delay = None
    desc = ("value", digits, p.osc_term, fg_on, bg_on, px_mode, swap, disabled, delays, p.da1, p.xtversion)
    res.case(desc + (cols, rows, cw, ch))
    if errs and timing_sensitive and attempt < 2:
        # might be a late reply on a loaded machine: must reproduce with more time
        res.count("re-runs of timing-sensitive mismatches")
        state = rnd.getstate()
        return errs, state
    return errs, None


def run_shard(shard, env):
    res = Result(shard)
    try:
        import term_image  # noqa: F401

        name, version = support_case(shard, env, res)
        rnd = random.Random("%s/c12/%s" % (shard["seed"], shard["index"]))
        for j in range(VALUE_CASES):
            st0 = rnd.getstate()
            errs = None
            for attempt in range(3):
                rnd.setstate(st0)
                errs, again = value_case(rnd, shard, env, res, name, version, attempt)
                if not errs or again is None:
                    break
            for k, m in errs or ():
                res.violation("C12:" + k, "%s [terminal %s]" % (m, shard["persona_kw"]), dict(kind="value", shard=shard, j=j))
            if res.too_many():
                break
    except Exception:
        res.inconclusive.append(traceback.format_exc()[-2000:])
    return res.as_dict()
