"""C07 -- an interrupted draw() still restores the terminal and the image."""

from __future__ import annotations

import ast
import gc
import inspect
import os
import random
import shutil
import sys
import tempfile
import textwrap
import traceback

from .. import drawlib as dl
from ..common import Result, make_anim_file, make_image
from ..env import vt_personality

ID = "C07"
LEVEL = "fault_enumeration"
NEEDS_PTY = True
N_SUBJECTS = {"quick": 10, "thorough": 260}
MAX_OPS_ALL = 400
RULE = (
    "each generated draw() call (both APIs, stills and 2..3-frame animations, every style per identity, "
    "echo_input/hide_cursor settings) is profiled once to enumerate its write / flush / sleep / render operations; "
    "then it is re-run with a single fault at EVERY operation that is not clean-up (classified by walking the "
    "stack at injection time), for KeyboardInterrupt and for another exception, the interrupted write delivering "
    "a chosen prefix of its data (nothing, one char, every cut inside an escape sequence up to a cap, all but one, "
    "all); distinct = distinct (api, subject, identity, operation index, operation kind, prefix class, exception "
    "kind) tuples"
)
ASSUMPTIONS = [
    "an operation is clean-up iff a frame of Renderable.draw / Renderable._animate_ / BaseImage.draw.render / "
    "BaseImage._display_animated is executing inside a finally: or except: body at that moment (line ranges from "
    "the AST of the current tree); faults are only injected at the other operations",
    "new-API subjects follow the documented extension contract: _handle_interrupted_draw_ writes CSI 0 m, and "
    "for the subject whose output consists of string-type sequences (APC strings with a payload, like the graphics "
    "protocols) it first ends a possibly open string, as the library's own graphics styles do",
    "'not swallowing output' is judged by writing a probe text after the call and finding it on the reference "
    "terminal's screen",
]
MIN_EVENTS = {"fault runs": {"quick": 3000, "thorough": 100000}}
SHARDS = 16
PERSONAS = ["other", "kitty-0.32", "kitty-0.25", "konsole", "wezterm", "iterm2"]


def plan(tier, seed):
    return [dict(persona=PERSONAS[i % len(PERSONAS)], seed=seed, index=i, count=N_SUBJECTS[tier], winsize=[40, 12, 160, 96]) for i in range(SHARDS)]


# ----------------------------------------------------------------------------- clean-up classifier

_CLEANUP = None


def cleanup_ranges():
    """{(filename, function name): [(first, last) absolute line ranges of finally/except bodies]}"""
    global _CLEANUP
    if _CLEANUP is not None:
        return _CLEANUP
    from term_image.image.common import BaseImage
    from term_image.renderable import Renderable

    out = {}

    def add(func, names):
        src = textwrap.dedent(inspect.getsource(func))
        first = func.__code__.co_firstlineno
        tree = ast.parse(src)
        fname = func.__code__.co_filename
        for node in ast.walk(tree):
            if isinstance(node, (ast.FunctionDef,)) and node.name in names:
                rngs = []
                for t in ast.walk(node):
                    if isinstance(t, ast.Try):
                        for body in [t.finalbody] + [h.body for h in t.handlers]:
                            if body:
                                rngs.append((first + body[0].lineno - 1, first + body[-1].end_lineno - 1))
                out.setdefault((fname, node.name), []).extend(rngs)

    add(Renderable.draw, {"draw"})
    add(Renderable._animate_, {"_animate_"})
    add(BaseImage.draw, {"render"})
    add(BaseImage._display_animated, {"_display_animated"})
    _CLEANUP = out
    return out


def in_cleanup():
    rng = cleanup_ranges()
    f = sys._getframe(2)
    while f is not None:
        key = (f.f_code.co_filename, f.f_code.co_name)
        r = rng.get(key)
        if r:
            ln = f.f_lineno
            if any(a <= ln <= b for a, b in r):
                return True
        f = f.f_back
    return False


class Probe:
    """Numbers every intercepted operation, classifies it, and fires the fault."""

    def __init__(self, fault=None):
        self.ops = []  # (kind, cleanup?, data length, data)
        self.fault = fault  # (index, prefix, exception factory)
        self.fired = None
        self.skipped_cleanup = False

    def hit(self, kind, data=None):
        idx = len(self.ops)
        cu = in_cleanup()
        self.ops.append((kind, cu, len(data) if data is not None else 0, data if self.fault is None else None))
        if self.fault is not None and self.fault[0] == idx and self.fired is None:
            if cu:
                self.skipped_cleanup = True
                self.fault = None
                return None
            self.fired = (kind, idx)
            return self.fault
        return None


class FaultOut(dl.TapOut):
    """Stream proxy with two delivery models.

    direct   -- every write() reaches the terminal at once; a faulted write delivers a
                prefix of its data.
    buffered -- write() only fills a buffer, the terminal is written in flush(); a
                faulted flush delivers a prefix of what was buffered and the rest is lost
                (a stream whose interrupted flush is not resumed)."""

    def __init__(self, orig, probe, tty=True, buffered=False):
        super().__init__(orig, mark=False, tty=tty)
        self.probe = probe
        self.buffered = buffered
        self.pending = []

    def write(self, s):
        f = self.probe.hit("write", s if not self.buffered else None)
        if f:
            prefix = f[1]
            if prefix and not self.buffered:
                self._o.write(s[:prefix])
                self._o.flush()
            raise f[2]()
        if self.buffered:
            self.pending.append(s)
            if self.buffered == "line" and ("\n" in s or "\r" in s):
                # line buffering, as on a tty: a newline sends everything buffered so far
                # (an implicit flush; no fault is injected here)
                self.deliver_pending()
            return len(s)
        return self._o.write(s)

    def deliver_pending(self):
        if self.pending:
            data = "".join(self.pending)
            del self.pending[:]
            self._o.write(data)
            self._o.flush()

    def flush(self):
        data = "".join(self.pending) if self.buffered else None
        f = self.probe.hit("flush", data)
        if f:
            if self.buffered:
                del self.pending[:]
                if f[1]:
                    self._o.write(data[: f[1]])
                    self._o.flush()
            raise f[2]()
        if self.buffered and data:
            del self.pending[:]
            self._o.write(data)
        self._o.flush()


def cut_points(data):
    """Prefix lengths that cut *inside* an escape sequence of *data*."""
    pts = []
    i = 0
    n = len(data)
    while True:
        j = data.find("\x1b", i)
        if j == -1 or j + 1 >= n:
            break
        k = j + 1
        ch = data[k]
        if ch == "[":
            e = k + 1
            while e < n and not ("@" <= data[e] <= "~"):
                e += 1
            pts.extend({j + 1, min(j + 2, e), (j + e) // 2 + 1, e})  # after ESC, after CSI, middle, before final
            i = e + 1
        elif ch in "_]":
            e = data.find("\x1b\\", k)
            e = n if e == -1 else e
            pts.extend({j + 1, j + 2, min(j + 12, e), (j + e) // 2, e, e + 1, e + 2})
            i = e + 2
        else:
            i = k + 1
    return sorted({p for p in pts if 0 < p < n})


# ----------------------------------------------------------------------------- subjects


def build_subject(case, env, tmpdir, state):
    """-> (draw callable, info dict with hooks for wrapping/observing)"""
    api = case["api"]
    if api == "new":
        from term_image.renderable import FrameCount

        from ..iterhist import build_padding
        from ..subjects import SubjAPC, SubjSGR

        n = case["n"]
        subj = (SubjAPC if case["kind"] == "apc" else SubjSGR)(n, 5, case["size"], case["kind"])
        padding = build_padding(case["pad"])

        def call():
            subj.draw(None, padding, loops=case["loops"], cache=case["cache"], hide_cursor=case["hide_cursor"], echo_input=case["echo_input"], check_size=False)

        return call, dict(obj=subj, render_attr="_render_", animated=n != 1, state=lambda: (subj.tell(),))
    from ..lib import set_terminal, style_classes

    rnd = random.Random(case["seed"])
    cls = style_classes()[case["style"]]
    state["n"] += 1
    if case["frames"] > 1:
        path = os.path.join(tmpdir, "c07-%d.gif" % state["n"])
        make_anim_file(rnd, path, *case.get("src", (6, 6)), case["frames"], "GIF")
        image = cls.from_file(path, **case["size_kw"])
        image.seek(case["frame0"])
    else:
        image = cls(make_image(rnd, *case.get("src", (5, 5)), "RGBA", "noise"), **case["size_kw"])
    if case.get("size_enum"):
        from term_image.image import Size

        image.size = getattr(Size, case["size_enum"])

    def call():
        image.draw(case["h"], case["pw"], case["v"], case["ph"], case["alpha"], repeat=case["repeat"], cached=case["cached"], animate=case.get("animate", True), check_size=False, scroll=True, **(case.get("style_kw") or {}))

    # an animated image drawn with animate=False is a still draw: Ctrl-C propagates
    return call, dict(obj=image, render_attr="_render_image", animated=case["frames"] > 1 and case.get("animate", True), state=lambda: (image.size, image.tell(), image.closed), close=image.close)


def run_once(case, env, tmpdir, state, fault, res, buffered=False):
    """One (possibly faulted) draw.  Returns (probe, outcome, errors)."""
    from .. import subjects as S

    cols, rows = case["term"]
    env.set_winsize(cols, rows, cols * 4, rows * 8)
    S.reset_tokens()
    # the harness keeps its own reference to every render-data object, so that finalization
    # by the garbage collector (RenderData.__del__) cannot stand in for draw()'s own
    S.hold_refs = True
    del S.held[:]
    call, info = build_subject(case, env, tmpdir, state)
    obj = info["obj"]
    probe = Probe(fault)
    real_render = getattr(obj, info["render_attr"])

    def render_wrapper(*a, **k):
        f = probe.hit("render")
        if f:
            raise f[2]()
        return real_render(*a, **k)

    setattr(obj, info["render_attr"], render_wrapper)
    vtime = dl.VirtualTime()

    def on_sleep(d):
        f = probe.hit("sleep")
        if f:
            raise f[2]()

    vtime.on_sleep = on_sleep
    before_state = info["state"]()
    env.flush_input()
    import termios as _t

    attr0 = list(env.sane_attr)
    if case.get("tty_mode"):
        # the program may have put the terminal into another mode before drawing (no echo,
        # non-canonical): "exactly as before the call" is about that state
        attr0[6] = list(attr0[6])
        if "noecho" in case["tty_mode"]:
            attr0[3] &= ~_t.ECHO
        if "cbreak" in case["tty_mode"]:
            attr0[3] &= ~_t.ICANON
            attr0[6][_t.VMIN], attr0[6][_t.VTIME] = 1, 0
    _t.tcsetattr(env.slave, _t.TCSANOW, attr0)
    attr_before = env.tcgetattr()
    env.take()
    out = FaultOut(sys.stdout, probe, tty=True, buffered=buffered)
    saved = sys.stdout
    sys.stdout = out
    # the graphics styles bound ``sys.stdout.write`` to a module-level name at import (their
    # frame-clearing / delete commands go through it): those writes are operations too
    import term_image.image.iterm2 as _im2
    import term_image.image.kitty as _imk

    saved_w = (_imk._stdout_write, _im2._stdout_write)
    _imk._stdout_write = _im2._stdout_write = out.write
    outcome = "returned"
    try:
        with dl.patched_time(vtime):
            call()
    except KeyboardInterrupt:
        outcome = "KeyboardInterrupt"
    except (Exception, SystemExit) as e:
        outcome = type(e).__name__
    finally:
        sys.stdout = saved
        _imk._stdout_write, _im2._stdout_write = saved_w
        if buffered:
            out.deliver_pending()  # whatever is still buffered reaches the terminal later
    data = env.take()
    errs = []
    if fault is None and env.tcgetattr() != attr_before:
        errs.append(("termios-not-restored", "terminal attributes differ after a fault-free draw()"))
    if fault is not None and probe.fired is not None:
        kind, idx = probe.fired
        ki = fault[3] == "KeyboardInterrupt"
        animated = info["animated"]
        # outcome
        if ki:
            want = "returned" if animated else "KeyboardInterrupt"
        else:
            want = fault[3]
        if outcome != want:
            errs.append(("outcome", "fault %s at op %d (%s): draw() %s, documented: %s" % (fault[3], idx, kind, outcome, want)))
        # terminal
        T = dl.new_screen(rows + 4, cols, vt_personality(env.persona_name), 0)
        T.feed(data.decode("utf-8", "replace"))
        if not T.visible:
            errs.append(("cursor-hidden", "cursor left hidden after %s at op %d (%s)" % (fault[3], idx, kind)))
        # "no graphics-protocol command is left unterminated": the parser must not sit in a
        # string (APC / OSC / DCS) nor wait for the rest of a chunked transmission.  (A cut
        # CSI is not a graphics command: it merely garbles the next few characters.)
        in_string = T.state not in ("g", "e", "c", "cs") or T.pending is not None
        sgr_ok = T.sgr_default()
        T.feed("\r\nPROBE-TEXT")
        row = "".join(c[0] for c in T.grid[T.r])
        if in_string or "TEXT" not in row:
            errs.append(("terminal-swallows-output", "after %s at op %d (%s, prefix %s): parser state %r, chunk pending %s, probe text %s" % (fault[3], idx, kind, fault[1], T.state, T.pending is not None, "displayed" if "TEXT" in row else "not displayed")))
        if not sgr_ok:
            errs.append(("attributes-not-reset", "text attributes after the call: fg=%r bg=%r" % (T.fg, T.bg)))
        if env.tcgetattr() != attr_before:
            errs.append(("termios-not-restored", "terminal attributes differ after %s at op %d" % (fault[3], idx)))
        after_state = info["state"]()
        if after_state != before_state:
            errs.append(("image-state-changed", "%r -> %r" % (before_state, after_state)))
        if case["api"] == "new":
            setattr(obj, info["render_attr"], real_render)
            gc.collect()
            S_fin = {}
            for t in S.finalized:
                S_fin[t] = S_fin.get(t, 0) + 1
            for t in S.created:
                if S_fin.get(t, 0) != 1:
                    errs.append(("render-data-not-finalized", "finalized %d times" % S_fin.get(t, 0)))
            del S.held[:]
    if "close" in info:
        info["close"]()
    return probe, outcome, errs


def exc_factory(name):
    if name == "KeyboardInterrupt":
        return KeyboardInterrupt
    if name == "SystemExit":
        # what a ``signal.signal(SIGTERM, lambda *_: sys.exit())`` handler raises out of
        # the interrupted write: an exception that is not an ``Exception``
        return lambda: SystemExit("injected")
    return lambda: RuntimeError("injected")


def run_subject(case, env, tmpdir, state, res, rnd):
    probe, outcome, errs0 = run_once(case, env, tmpdir, state, None, res)
    for key, msg in errs0:
        res.violation("C07:" + key, msg, case)
    if outcome != "returned":
        res.violation("C07:fault-free-failed", "fault-free draw %s: %s" % (case, outcome), case)
        return
    ops = probe.ops
    res.count("profiles")
    res.count("operations enumerated", len(ops))
    res.count("operations classified clean-up", sum(1 for o in ops if o[1]))
    idxs = [i for i, o in enumerate(ops) if not o[1]]
    if len(ops) > MAX_OPS_ALL:
        idxs = sorted(rnd.sample(idxs, MAX_OPS_ALL))
        res.count("subjects sampled (more than %d operations)" % MAX_OPS_ALL)
    first_render = next((i for i, o in enumerate(ops) if o[0] == "render"), len(ops))
    for i in idxs:
        kind, _, dlen, data = ops[i]
        if kind == "write" and dlen:
            cuts = cut_points(data)
            if len(cuts) > 8:
                # keep the cuts right after a complete graphics command (a chunked
                # transmission may be left open there) and sample the rest
                ends = [p for p in cuts if data[p - 2 : p] == "\x1b\\"]
                cuts = sorted(set(rnd.sample(cuts, 6)) | set(rnd.sample(ends, min(3, len(ends)))))
            prefixes = sorted({0, 1 if dlen > 1 else 0, dlen - 1, dlen} | set(cuts))
        else:
            prefixes = [0]
        for exc in ("KeyboardInterrupt", "RuntimeError", "SystemExit"):
            if exc == "SystemExit":
                # (sampled: where what has been delivered ends inside a sequence)
                inside = [p for p in prefixes if 0 < p < dlen]
                if not inside:
                    continue
            for p in prefixes if exc != "SystemExit" else inside[:: max(1, len(inside) // 2)][:2]:
                fault = (i, p, exc_factory(exc), exc)
                try:
                    pr, outcome, errs = run_once(case, env, tmpdir, state, fault, res)
                except Exception as e:
                    from ..env import HarnessTimeout

                    if isinstance(e, HarnessTimeout):
                        res.inconclusive.append("harness time-out (not a verdict): %s" % str(e)[:600])
                        continue
                    errs = [("harness-exception", traceback.format_exc()[-1200:])]
                    pr = None
                res.count("fault runs")
                if pr is not None and pr.skipped_cleanup:
                    res.count("faults skipped: operation turned out to be clean-up")
                    continue
                if pr is not None and pr.fired is None:
                    res.count("faults not reached")
                    continue
                res.count("fault at " + kind)
                pclass = "none" if not dlen else ("0" if p == 0 else "all" if p == dlen else "cut")
                res.case((case["api"], case.get("style") or case.get("kind"), env.persona_name, i, kind, pclass, exc, str({k: v for k, v in case.items() if k != "seed"})))
                for key, msg in errs:
                    prelude = i < first_render
                    k = "C07:" + key
                    if key == "outcome" and exc == "KeyboardInterrupt" and prelude and ((case.get("frames", 0) > 1 and case.get("animate", True)) or (case["api"] == "new" and case.get("n") != 1)):
                        k = "C07:ki-in-animation-prelude"
                    elif key == "cursor-hidden" and case["api"] == "old" and prelude:
                        k = "C07:old-api-hide-cursor-before-try"
                    res.violation(k, "%s API %s [%s] %s; op %d/%d %s prefix %s/%s" % (case["api"], case.get("style") or case.get("kind"), env.persona_name, msg, i, len(ops), kind, p, dlen), dict(case, fault=[i, p, exc]))
        if res.too_many():
            return
    # second delivery model: buffered stream, faults at the flushes (the moment the bytes
    # really go to the terminal), delivering a prefix of what was buffered
    for bmode in ("line", "full"):
      probe_b, outcome_b, _ = run_once(case, env, tmpdir, state, None, res, buffered=bmode)
      if outcome_b == "returned":
          ops_b = probe_b.ops
          first_render_b = next((i for i, o in enumerate(ops_b) if o[0] == "render"), len(ops_b))
          for i, (kind, cu, dlen, data) in enumerate(ops_b):
              if kind != "flush" or cu or not dlen:
                  continue
              cuts = cut_points(data)
              if len(cuts) > 5:
                  ends = [p_ for p_ in cuts if data[p_ - 2 : p_] == "\x1b\\"]
                  cuts = sorted(set(rnd.sample(cuts, 4)) | set(rnd.sample(ends, min(2, len(ends)))))
              for p in sorted({0, dlen - 1, dlen // 2} | set(cuts)):
                  for exc in ("KeyboardInterrupt", "RuntimeError"):
                      fault = (i, p, exc_factory(exc), exc)
                      try:
                          pr, outcome, errs = run_once(case, env, tmpdir, state, fault, res, buffered=bmode)
                      except Exception as e:
                          from ..env import HarnessTimeout

                          if isinstance(e, HarnessTimeout):
                              res.inconclusive.append("harness time-out (not a verdict): %s" % str(e)[:600])
                              continue
                          errs = [("harness-exception", traceback.format_exc()[-1200:])]
                          pr = None
                      res.count("fault runs")
                      if pr is None and errs:
                          for key, msg in errs:
                              res.violation("C07:" + key, msg, dict(case, fault=[i, p, exc], buffered=bmode))
                          continue
                      if pr is None or pr.skipped_cleanup or pr.fired is None:
                          res.count("faults skipped or not reached (buffered model)")
                          continue
                      res.count("fault at buffered flush")
                      res.case((case["api"], case.get("style") or case.get("kind"), env.persona_name, i, "bflush", p, exc, str({k: v for k, v in case.items() if k != "seed"})))
                      for key, msg in errs:
                          k = "C07:" + key
                          if key == "outcome" and exc == "KeyboardInterrupt" and i < first_render_b and ((case.get("frames", 0) > 1 and case.get("animate", True)) or (case["api"] == "new" and case.get("n") != 1)):
                              k = "C07:ki-in-animation-prelude"
                          res.violation(k, ("%s API %s [%s] (" + bmode + "-buffered stream) %s; flush op %d/%d delivering %d of %d buffered chars") % (case["api"], case.get("style") or case.get("kind"), env.persona_name, msg, i, len(ops_b), p, dlen), dict(case, fault=[i, p, exc], buffered=bmode))
              if res.too_many():
                  return
    res.sample(dict(case, operations=len(ops), cleanup_ops=sum(1 for o in ops if o[1])))


def gen(rnd, persona):
    pers = vt_personality(persona)
    cols, rows = rnd.randint(10, 30), rnd.randint(5, 12)
    if rnd.random() < 0.4:
        return dict(
            api="new",
            term=[cols, rows],
            n=rnd.choice([1, 2, 3]),
            size=[rnd.randint(1, 4), rnd.randint(1, 3)],
            kind=rnd.choice(["text", "sgr", "sgr", "ech", "apc", "apc"]),
            pad=rnd.choice([dict(type="exact", dims=[0, 0, 0, 0], fill=" "), dict(type="aligned", width=6, height=4, h=1, v=1, fill=" "), dict(type="exact", dims=[1, 1, 1, 1], fill="")]),
            loops=rnd.choice([1, 2]),
            cache=rnd.choice([False, True]),
            hide_cursor=rnd.random() < 0.8,
            echo_input=rnd.random() < 0.4,
            tty_mode=rnd.choice([None, None, "noecho", "noecho+cbreak", "cbreak"]),
        )
    styles = ["block", "block"] + {"kitty": ["kitty", "kitty"], "konsole": ["kitty", "iterm2"], "wezterm": ["iterm2", "iterm2"], "iterm2": ["iterm2", "iterm2"], "other": ["kitty", "iterm2"]}[pers]
    style = rnd.choice(styles)
    frames = rnd.choice([1, 1, 2, 3])
    if style == "kitty" and pers not in ("kitty", "konsole"):
        frames = 1
    case = dict(
        api="old",
        style=style,
        term=[cols, rows],
        frames=frames,
        frame0=rnd.randrange(frames),
        size_kw=rnd.choice([dict(width=rnd.randint(1, 4), height=rnd.randint(1, 3)), dict(width=3), dict(width=8, height=4)]),
        size_enum=rnd.choice([None, None, "FIT"]),
        seed=rnd.getrandbits(32),
        h=rnd.choice([None, "<", ">"]),
        v=rnd.choice([None, "^", "_"]),
        pw=rnd.choice([0, rnd.randint(1, 8)]),
        ph=rnd.choice([-2, rnd.randint(1, 5)]),
        alpha=rnd.choice([40 / 255, None, "#102030"]),
        repeat=rnd.choice([1, 2]),
        cached=rnd.choice([True, False]),
        animate=rnd.random() < 0.7,
        tty_mode=rnd.choice([None, None, None, "noecho", "noecho+cbreak"]),
    )
    if style == "kitty" and rnd.random() < 0.5:
        # large enough for a chunked transmission (more than 4096 base64 characters)
        case["size_kw"] = dict(width=8, height=4)
        case["src"] = [40, 40]
        case["frames"] = 1
        case["style_kw"] = dict(compress=0, method=rnd.choice(["whole", "lines", "whole"]))
        case["size_enum"] = None
        if pers in ("kitty", "konsole") and rnd.random() < 0.6:
            # an animation whose frames need chunked transmissions, shown twice so that the
            # second pass is served from the frame cache
            case.update(frames=2, frame0=0, repeat=2, cached=True, animate=True, src=[48, 40], size_kw=dict(width=10, height=4))
            case["style_kw"]["method"] = "whole"
    elif style != "block":
        kw = {}
        if rnd.random() < 0.5:
            kw["method"] = rnd.choice(["lines", "whole"])
        if style == "kitty" and rnd.random() < 0.4:
            kw["compress"] = rnd.choice([0, 4])
        case["style_kw"] = kw
    return case


def run_shard(shard, env):
    from ..lib import setup_styles

    res = Result(shard, max_violations=60)
    setup_styles(env)
    tmpdir = tempfile.mkdtemp(prefix="vf-c07-")
    state = {"n": 0}
    try:
        rnd = random.Random("%s/c07/%s" % (shard["seed"], shard["index"]))
        if "replay" in shard:
            c = dict(shard["replay"])
            f = c.pop("fault", None)
            buffered = c.pop("buffered", False)
            if f:
                pr, outcome, errs = run_once(c, env, tmpdir, state, (f[0], f[1], exc_factory(f[2]), f[2]), res, buffered=buffered)
                res.case(str(c))
                for key, msg in errs:
                    res.violation("C07:" + key, msg, shard["replay"])
            else:
                run_subject(c, env, tmpdir, state, res, rnd)
            return res.as_dict()
        for _ in range(shard["count"]):
            case = gen(rnd, shard["persona"])
            try:
                run_subject(case, env, tmpdir, state, res, rnd)
            except Exception:
                res.violation("C07:harness-exception", traceback.format_exc()[-1500:], case)
            for f in os.listdir(tmpdir):
                try:
                    os.remove(os.path.join(tmpdir, f))
                except OSError:
                    pass
            if res.too_many():
                break
    finally:
        shutil.rmtree(tmpdir, ignore_errors=True)
    return res.as_dict()
