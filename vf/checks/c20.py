"""C20 -- style settings resolve instance -> nearest class -> default, unset restores."""

from __future__ import annotations

import base64
import os
import random
import re
import traceback

from ..common import Result
from ..vterm import VTerm

ID = "C20"
LEVEL = "exploration"
NEEDS_PTY = True
RULE = (
    "trees of user subclasses of KittyImage / ITerm2Image / BlockImage (depth <= 4) with a few instances; random "
    "histories of set / unset / invalid-set on any class or instance for render method, forced_support, "
    "jpeg_quality, read_from_file, native_anim_max_bytes; after every operation the effective value of every setting "
    "on every node is compared with the documented resolution model, and the render method actually used is "
    "observed from the framing of a real render (LINES = one image per line, WHOLE = one image) with and without "
    "a per-call override; distinct = distinct (tree shape, history) pairs"
)
ASSUMPTIONS = [
    "model (this file): instance value if set, else nearest class in the ancestry with a value, else the documented "
    "default (method: lines; forced_support: False; jpeg_quality: -1; read_from_file: True; native_anim_max_bytes: "
    "one global value, default 2 MiB)",
    "the effective render method has no public getter: it is observed by rendering a 1x3-cell image and counting "
    "graphics commands on the reference terminal",
    "identity 'konsole' (supports both graphics styles) is used so that every class can be instantiated; identity "
    "'other' is used to observe forced_support through instantiation (StyleError iff not forced)",
]
N_HIST = {"quick": 25, "thorough": 3000}
MIN_EVENTS = {"effective values compared": {"quick": 50000, "thorough": 500000}, "render methods observed": {"quick": 5000, "thorough": 50000}}
SHARDS = 16
DEFAULTS = {"method": "lines", "forced_support": False, "jpeg_quality": -1, "read_from_file": True}


def plan(tier, seed):
    return [dict(persona=("konsole", "other")[i % 2], seed=seed, index=i, hists=N_HIST[tier]) for i in range(SHARDS)]


def observe_method(image, override=None):
    """-> 'lines' | 'whole' from the framing of an actual render."""
    kw = {"method": override} if override else {}
    out = image._renderer(image._render_image, None, **image._check_style_args(kw))
    vt = VTerm(6, 6, "konsole")
    vt.feed(out)
    m = re.search(r"\x1b\]1337;File=[^:]*:([A-Za-z0-9+/=]*)", out)
    observe_method.last_payload = base64.b64decode(m.group(1)) if m else None
    n = len(vt.placements) + (0 if vt.placements else len(vt.images))
    H = image.rendered_height
    if n == H and H > 1:
        return "lines"
    if n == 1:
        return "whole"
    return "?%d" % n


def observe_animated(cls, path, override, env):
    """Image commands per frame of a real animated draw() with a per-call method override
    (2-frame source, 1x3 cells): 1 = whole-image frames, 3 = one command per line."""
    import sys

    from .. import drawlib as dl

    image = cls.from_file(path, width=1, height=3)
    try:
        env.take()
        with dl.patched_time(dl.VirtualTime()):
            image.draw(method=override, repeat=1, check_size=False)
        sys.stdout.flush()
        data = env.take()
        # the override was for that call only: the instance (which has no method of its
        # own) goes on following its class, also when the class-wide method changes now
        own = vars(cls).get("_render_method")
        try:
            for m in ("whole", "lines"):
                cls.set_render_method(m)
                used = observe_method(image)
                if used != m:
                    observe_animated.after = "after an animated draw(method=%r) the instance renders with %s although its class was just set to %s" % (override, used, m)
                    break
            else:
                observe_animated.after = None
        finally:
            cls.set_render_method(own)
    finally:
        image.close()
    return data.count(b"\x1b]1337;File=") / 2


def observe_iterated(cls, path, override):
    """Methods used for the frames of a cached ImageIterator carrying a per-call override,
    before and after the image is resized (cached frames are rendered anew then)."""
    from term_image.image import ImageIterator

    image = cls.from_file(path, width=1, height=3)
    out = []
    try:
        it = ImageIterator(image, 3, "1.1+" + {"lines": "L", "whole": "W"}[override], cached=True)
        for i in range(6):
            if i == 2:
                image.set_size(width=2, height=3)
            frame = next(it)
            vt = VTerm(6, 8, "konsole")
            vt.feed(frame)
            n = len(vt.placements) + (0 if vt.placements else len(vt.images))
            out.append("lines" if n == 3 else "whole" if n == 1 else "?%d" % n)
        it.close()
    finally:
        image.close()
    return out


def observe_iterated_change(cls, path):
    """An un-cached ImageIterator without a per-call override (every frame is a render):
    the instance's render method is set between two frames, then unset again; each frame is
    rendered with the method in effect when it is rendered.  -> [(used, effective)]"""
    from term_image.image import ImageIterator

    image = cls.from_file(path, width=1, height=3)
    out = []
    try:
        it = ImageIterator(image, 4, "1.1", cached=False)
        for i in range(6):
            if i == 2:
                image.set_render_method("whole" if str(image._render_method).lower() == "lines" else "lines")
            elif i == 4:
                image.set_render_method(None)
            frame = next(it)
            vt = VTerm(6, 8, "konsole")
            vt.feed(frame)
            n = len(vt.placements) + (0 if vt.placements else len(vt.images))
            eff = str(image._render_method).lower()
            out.append(("lines" if n == 3 else "whole" if n == 1 else "?%d" % n, "whole" if eff == "anim" else eff))
        it.close()
    finally:
        image.close()
    return out


def run_history(seed, res, env, steps):
    from PIL import Image
    from term_image.exceptions import StyleError
    from term_image.image import BlockImage, ITerm2Image, KittyImage

    rnd = random.Random(seed)
    persona = env.persona_name
    supported = persona == "konsole"
    root = rnd.choice([KittyImage, ITerm2Image, ITerm2Image, BlockImage] if supported else [KittyImage, ITerm2Image])
    family = {KittyImage: "kitty", ITerm2Image: "iterm2", BlockImage: "block"}[root]
    classes = [root]
    depth = {root: 0}
    shape = []
    for i in range(rnd.randint(1, 7)):
        parent = rnd.choice(classes)
        if depth[parent] >= 4:
            continue
        # (some subclasses also inherit from a plain, non-style mixin -- listed first or last:
        #  "nearest class in its ancestry" is about the MRO, not about ``__base__``)
        mix = rnd.random()
        bases = (parent,)
        if mix < 0.3:
            mixin = type("Mixin%d_%d" % (seed % 100000, i), (), {"extra": i})
            bases = (mixin, parent) if mix < 0.2 else (parent, mixin)
        cls = type("U%d_%d" % (seed % 100000, i), bases, {})
        depth[cls] = depth[parent] + 1
        shape.append(classes.index(parent))
        classes.append(cls)
    src = Image.new("RGB", (3, 3), (9, 99, 199))
    src_file = None
    if rnd.random() < 0.5:
        # a source backed by a readable file (a PIL image opened from it): for iterm2 the
        # read-from-file setting then decides what a WHOLE render transmits
        import tempfile

        fd, src_file = tempfile.mkstemp(suffix=".png", dir="/var/tmp", prefix="vf-c20-")
        os.close(fd)
        # (one pixel: never more pixels than the render, so sending the file is "reasonable")
        Image.new("RGB", (1, 1), (9, 99, 199)).save(src_file, "PNG")
        src = Image.open(src_file)
        with open(src_file, "rb") as f:
            file_bytes = f.read()
    anim_file = None
    if family in ("iterm2", "kitty"):
        import tempfile

        fd, anim_file = tempfile.mkstemp(suffix=".gif", dir="/var/tmp", prefix="vf-c20-")
        os.close(fd)
        frames = [Image.new("RGB", (4, 6), (30 + 90 * i, 60, 200 - 80 * i)) for i in range(2)]
        frames[0].save(anim_file, "GIF", save_all=True, append_images=frames[1:], duration=10, loop=0)
    model = {}  # (node key, setting) -> value ; node key = class or ("i", index)
    anim_global = [2 * 2**20]
    ops = []
    case = dict(seed=seed, steps=steps, persona=persona)

    def fail(key, msg):
        res.violation("C20:" + key, "%s [root=%s shape=%s persona=%s] ops=%s" % (msg, family, shape, persona, ops[-8:]), case)

    def eff_class(cls, setting):
        for c in cls.__mro__:
            if (c, setting) in model:
                return model[(c, setting)]
        return DEFAULTS[setting]

    def eff(node, setting):
        if not isinstance(node, type):
            k = (("i", id(node)), setting)
            if k in model:
                return model[k]
            node = type(node)
        return eff_class(node, setting)

    insts = []
    try:
        if not supported:
            root.forced_support = True
            model[(root, "forced_support")] = True
        for _ in range(3):
            c = rnd.choice(classes)
            insts.append(c(src, width=1, height=3))
        settings = ["method", "forced_support"] + (["jpeg_quality", "read_from_file", "anim"] if family == "iterm2" else [])
        methods = {"kitty": ["lines", "whole", "LINES", "Whole"], "iterm2": ["lines", "whole", "anim", "WHOLE"], "block": []}[family]
        for step in range(steps):
            setting = rnd.choice(settings)
            node = rnd.choice(classes + insts)
            is_cls = isinstance(node, type)
            key = (node if is_cls else ("i", id(node)), setting)
            action = rnd.choice(["set", "set", "unset", "bad"])
            name = node.__name__ if is_cls else "inst(%s)" % type(node).__name__
            ops.append((setting, name, action))
            if setting == "method":
                if action == "set" and methods:
                    v = rnd.choice(methods)
                    node.set_render_method(v)
                    model[key] = v.lower()
                elif action == "unset" or not methods and action == "set":
                    node.set_render_method(rnd.choice([None, None, ""]) if False else None)
                    model.pop(key, None)
                else:
                    bad = rnd.choice([5, "nope", b"lines", 1.0])
                    try:
                        node.set_render_method(bad)
                        fail("invalid-accepted", "set_render_method(%r) accepted on %s" % (bad, name))
                    except (TypeError, ValueError) as e:
                        if isinstance(bad, str) != isinstance(e, ValueError):
                            fail("wrong-error", "set_render_method(%r) raised %s" % (bad, type(e).__name__))
            elif setting == "forced_support":
                if not is_cls:
                    try:
                        node.forced_support = True
                        fail("instance-write-accepted", "forced_support written through an instance")
                    except AttributeError:
                        pass
                elif action == "bad":
                    try:
                        node.forced_support = rnd.choice([1, "x", None])
                        fail("invalid-accepted", "forced_support non-bool accepted")
                    except TypeError:
                        pass
                elif action == "set":
                    v = rnd.choice([True, False])
                    if supported or v or node is not root:
                        node.forced_support = v
                        model[key] = v
            elif setting == "anim":
                if not is_cls:
                    try:
                        node.native_anim_max_bytes = 5
                        fail("instance-write-accepted", "native_anim_max_bytes written through an instance")
                    except AttributeError:
                        pass
                elif action == "set":
                    v = rnd.choice([1, 1000, 2**30])
                    node.native_anim_max_bytes = v
                    anim_global[0] = v
                elif action == "unset":
                    del node.native_anim_max_bytes
                    anim_global[0] = 2 * 2**20
                else:
                    bad = rnd.choice([0, -1, "x", 1.5])
                    try:
                        node.native_anim_max_bytes = bad
                        fail("invalid-accepted", "native_anim_max_bytes=%r accepted" % (bad,))
                    except (TypeError, ValueError) as e:
                        if isinstance(bad, int) != isinstance(e, ValueError):
                            fail("wrong-error", "native_anim_max_bytes=%r raised %s" % (bad, type(e).__name__))
            else:
                if action == "set":
                    v = rnd.choice([0, 50, 95, -1, -7]) if setting == "jpeg_quality" else rnd.choice([True, False])
                    setattr(node, setting, v)
                    model[key] = v
                elif action == "unset":
                    delattr(node, setting)
                    model.pop(key, None)
                else:
                    bad = rnd.choice([96, "x", 1.5, 1000]) if setting == "jpeg_quality" else rnd.choice([1, "x", None, 0])
                    try:
                        setattr(node, setting, bad)
                        fail("invalid-accepted", "%s=%r accepted on %s" % (setting, bad, name))
                    except (TypeError, ValueError) as e:
                        if (isinstance(bad, int) and not isinstance(bad, bool) and setting == "jpeg_quality") != isinstance(e, ValueError):
                            fail("wrong-error", "%s=%r raised %s" % (setting, bad, type(e).__name__))
            res.count("operations")
            # compare every node / every setting with the model
            for n in classes + insts:
                nm = n.__name__ if isinstance(n, type) else "inst(%s)" % type(n).__name__
                g = n.forced_support
                if g != eff(n, "forced_support"):
                    fail("effective:forced_support", "%s.forced_support is %r, model %r" % (nm, g, eff(n, "forced_support")))
                    return
                res.count("effective values compared")
                if family == "kitty" and isinstance(n, type) and step % 2 == 0:
                    # a consumer of the class-wide forced support: clear() is documented
                    # to do nothing if the style is (effectively) not supported
                    env.take()
                    n.clear(now=True)
                    acted = b"\x1b_Ga=d" in env.take()
                    res.count("effect of forced support on clear() observed")
                    if acted != bool(supported or eff_class(n, "forced_support")):
                        fail("forced-support-effect", "%s.clear() %s although the style is %ssupported by the terminal and %s.forced_support is %r" % (nm, "sent a delete command" if acted else "did nothing", "" if supported else "not ", nm, eff_class(n, "forced_support")))
                        return
                if family == "iterm2":
                    for s in ("jpeg_quality", "read_from_file"):
                        g = getattr(n, s)
                        if g != eff(n, s):
                            fail("effective:" + s, "%s.%s is %r, model %r" % (nm, s, g, eff(n, s)))
                            return
                        res.count("effective values compared")
                    if n.native_anim_max_bytes != anim_global[0]:
                        fail("effective:native_anim_max_bytes", "%s sees %r, global is %r" % (nm, n.native_anim_max_bytes, anim_global[0]))
                        return
                    res.count("effective values compared")
                # render method actually used
                if family != "block":
                    target = n
                    if isinstance(n, type):
                        if supported or eff_class(n, "forced_support"):
                            try:
                                target = n(src, width=1, height=3)
                            except StyleError:
                                fail("instantiation", "%s not instantiable although supported/forced" % nm)
                                return
                        else:
                            try:
                                n(src, width=1, height=3)
                                fail("instantiation", "%s instantiable although neither supported nor forced" % nm)
                            except StyleError:
                                res.count("instantiations correctly refused")
                            continue
                    want = eff(n, "method")
                    want = "whole" if want == "anim" else want  # non-animated image: ANIM -> WHOLE
                    got = observe_method(target)
                    res.count("render methods observed")
                    if got != want:
                        fail("method-used", "%s renders with %s, effective method is %s" % (nm, got, want))
                        return
                    ov = None
                    if step % 5 == 0 or (src_file and step % 2 == 0):
                        ov = rnd.choice(["lines", "whole"])
                        got = observe_method(target, ov)
                        res.count("render methods observed")
                        if got != ov:
                            fail("method-override", "%s with method=%s override rendered %s" % (nm, ov, got))
                            return
                    if src_file and family == "iterm2" and (ov or str(eff(n, "method")).lower()) == "whole":
                        # the render just made was a WHOLE render of a file-backed RGB source
                        # that needs no manipulation: the file itself iff read-from-file is
                        # in effect for this class / instance
                        payload = observe_method.last_payload
                        res.count("read-from-file effect observed")
                        if (payload == file_bytes) != bool(eff(n, "read_from_file")):
                            fail("read-from-file-effect", "%s: WHOLE render (%s) %s the source file although read_from_file is effectively %r" % (nm, "method=%s override" % ov if ov else "effective method", "transmits" if payload == file_bytes else "does not transmit", eff(n, "read_from_file")))
                            return
                    if family == "iterm2" and isinstance(n, type) and anim_file and step % 7 == 0:
                        ov = rnd.choice(["lines", "whole", "anim", "ANIM"])
                        per_frame = observe_animated(n, anim_file, ov, env)
                        res.count("animated draws with a per-call method override")
                        want_pf = 3 if ov == "lines" else 1
                        if observe_animated.after:
                            fail("method-override-sticks", "%s: %s" % (nm, observe_animated.after))
                            return
                        if per_frame != want_pf:
                            fail("method-override", "%s: animated draw(method=%r) wrote %s image commands per frame, the override asks for %d (effective method %s)" % (nm, ov, per_frame, want_pf, eff(n, "method")))
                            return
                    if isinstance(n, type) and anim_file and step % 9 == 6:
                        used = observe_iterated_change(n, anim_file)
                        res.count("iterations with the render method changed between two frames")
                        if any(u != e for u, e in used):
                            fail("method-used", "%s: frames of an un-cached ImageIterator were rendered with %s while the effective method was %s (set on the instance before the third frame, unset before the fifth)" % (nm, [u for u, _ in used], [e for _, e in used]))
                            return
                    if isinstance(n, type) and anim_file and step % 9 == 4:
                        ov = rnd.choice(["lines", "whole"])
                        used = observe_iterated(n, anim_file, ov)
                        res.count("iterations with a per-call method override across a resize")
                        if set(used) != {ov}:
                            fail("method-override", "%s: ImageIterator(format '+%s', cached) frames were rendered with %s (the image is resized after the first pass; effective method %s)" % (nm, ov[0].upper(), used, eff(n, "method")))
                            return
                    if target is not n:
                        target.close()
        res.case((family, tuple(shape), tuple(ops)))
    finally:
        for im in insts:
            im.close()
        if src_file:
            src.close()
            os.unlink(src_file)
        if anim_file:
            os.unlink(anim_file)
        for c in (KittyImage, ITerm2Image, BlockImage):
            c.set_render_method(None)
            c.forced_support = False
        for s in ("jpeg_quality", "read_from_file", "native_anim_max_bytes"):
            delattr(ITerm2Image, s)


def run_shard(shard, env):
    res = Result(shard)
    from term_image.image import ITerm2Image, KittyImage

    # let the library find out where it is (real queries)
    import term_image

    term_image.set_query_timeout(5.0)
    KittyImage.is_supported(), ITerm2Image.is_supported()
    rnd = random.Random("%s/c20/%s" % (shard["seed"], shard["index"]))
    try:
        if "replay" in shard:
            c = shard["replay"]
            run_history(c["seed"], res, env, c["steps"])
            return res.as_dict()
        for _ in range(shard["hists"]):
            seed = rnd.getrandbits(40)
            run_history(seed, res, env, 40)
            res.sample(dict(seed=seed, steps=40, persona=env.persona_name))
            if res.too_many():
                break
    except Exception:
        res.violation("C20:exception", traceback.format_exc()[-2000:], dict(shard=shard))
    return res.as_dict()
