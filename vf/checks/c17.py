"""C17 -- trimming an image canvas equals cropping what the full canvas shows."""

from __future__ import annotations

import random
import traceback

from ..common import Result
from ..env import vt_personality
from ..vterm import VTerm, halves

ID = "C17"
LEVEL = "exploration"
NEEDS_PTY = True
N_CANV = {"quick": 6, "thorough": 220}
EXHAUSTIVE = {"quick": False, "thorough": False}
RULE = (
    "random images x box/flow widget sizes <= 14x9 x 9 alignments x upscale x transparency setting x style "
    "(block, kitty, iterm2) x identity; for each canvas ALL sub-rectangles (trim_left, trim_top, cols, rows) are "
    "requested and every returned row is executed on the reference terminal; distinct = distinct (canvas "
    "descriptor, sub-rectangle) pairs (exhaustive per canvas, canvases sampled)"
)
ASSUMPTIONS = [
    "a canvas row is judged by executing the concatenated segment bytes on a one-row VTerm: it must advance the "
    "cursor by exactly `cols` columns and end with default attributes",
    "text cells are compared on their visible (upper, lower) half colours -- a blank cell's leftover foreground "
    "colour is invisible",
    "graphics canvases are rendered with the LINES method (the documented requirement for trimming)",
]
MIN_EVENTS = {"trimmed rows executed": {"quick": 100000, "thorough": 3000000}}
SHARDS = 16
PERSONAS = ["other", "kitty-0.32", "konsole", "wezterm"]


def plan(tier, seed):
    return [dict(persona=PERSONAS[i % len(PERSONAS)], seed=seed, index=i, count=N_CANV[tier], winsize=[80, 30, 320, 240]) for i in range(SHARDS)]


def run_row(segs, cols, personality):
    data = b"".join(s[2] for s in segs).decode("utf-8")
    vt = VTerm(1, cols + 3, personality, cooked=True)
    vt.feed(data)
    return vt


def row_view(vt, cols, text):
    if text:
        return [halves(vt.grid[0][c]) for c in range(cols)]
    return (
        sorted((p.col, p.c, p.r, p.digest, p.z) for p in vt.placements),
        sorted((v[0], v[1], v[2]) for v in vt.images.values()),
    )


def run_canvas(case, env, res):
    import urwid  # noqa: F401
    from PIL import Image
    from term_image.widget import UrwidImage

    from ..lib import set_terminal, style_classes

    rnd = random.Random(case["seed"])
    personality = vt_personality(env.persona_name)
    set_terminal(env, 80, 30, *case["cell"])
    sw, sh = case["src"]
    im = Image.new("RGBA", (sw, sh))
    im.putdata([(rnd.randrange(256), rnd.randrange(3) * 100, rnd.randrange(256), rnd.choice([0, 255, 255, 255, 90])) for _ in range(sw * sh)])
    cls = style_classes()[case["style"]]
    text = case["style"] == "block"
    w = UrwidImage(cls(im), case["spec"], upscale=case["upscale"])
    size = tuple(case["size"])
    key = "C17:" + case["style"]
    if len(size) == 1:
        announced = w.rows(size)
        canv = w.render(size)
        res.count("flow widgets: rows() vs render().rows()")
        if announced != canv.rows():
            res.violation(key + ":rows-announced", "flow widget announces %d rows, renders %d (%s)" % (announced, canv.rows(), case), case)
    else:
        canv = w.render(size)
    C, R = canv.cols(), canv.rows()
    if len(size) == 2 and (C, R) != size:
        res.violation(key + ":canvas-size", "box canvas is %dx%d for size %s" % (C, R, size), case)
        return
    full_rows = list(canv.content())
    if len(full_rows) != R:
        res.violation(key + ":full-rows", "untrimmed content() yields %d rows, canvas has %d" % (len(full_rows), R), case)
        return
    full = []
    for i, segs in enumerate(full_rows):
        vt = run_row(segs, C, personality)
        if vt.c != C or vt.autowraps or not vt.sgr_default() or vt.anomalies():
            res.violation(key + ":full-row", "untrimmed row %d: cursor %d (expected %d) sgr=%s anomalies=%s (%s)" % (i, vt.c, C, vt.sgr_default(), vt.anomalies(), case), case)
            return
        full.append((row_view(vt, C, text), vt))
    if case.get("resize_between"):
        # the canvas stays alive (urwid caches one canvas per widget and size) while the same
        # widget -- and therefore the same image -- is rendered at another size, or the
        # image is sized by the application; trimming the old canvas afterwards still
        # crops what that canvas shows
        other = (C + rnd.randint(1, 4), R + rnd.randint(0, 3)) if len(size) == 2 else (C + rnd.randint(1, 5),)
        try:
            if rnd.random() < 0.7:
                kept = w.render(other)  # noqa: F841
            else:
                w._ti_image.set_size(width=max(1, C // 2))
            res.count("canvases trimmed after their image was sized anew")
        except Exception:
            pass
    ntr = 0
    for tl in range(C):
        for cols in range(1, C - tl + 1):
            for tt in range(R):
                for rows in range(1, R - tt + 1):
                    if (tl, tt, cols, rows) == (0, 0, C, R):
                        continue
                    ntr += 1
                    got = list(canv.content(tl, tt, cols, rows))
                    errs = []
                    if len(got) != rows:
                        errs.append(("row-count", len(got), rows))
                    for i, segs in enumerate(got[:rows]):
                        vt = run_row(segs, cols, personality)
                        res.count("trimmed rows executed")
                        if vt.c != cols or vt.autowraps:
                            errs.append(("row-width", i, vt.c, cols))
                        if not vt.sgr_default():
                            errs.append(("colour-bleeds", i, vt.fg, vt.bg))
                        if vt.anomalies():
                            errs.append(("anomaly", i, vt.anomalies()))
                        if text:
                            exp = full[tt + i][0][tl : tl + cols]
                            view = row_view(vt, cols, True)
                            if view != exp:
                                errs.append(("cells-differ", i, [(c, a, b) for c, (a, b) in enumerate(zip(view, exp)) if a != b][:2]))
                        elif tl or tl + cols < C:
                            if vt.placements or vt.images or any(vt.grid[0][c] != (" ", None, None) for c in range(cols)):
                                errs.append(("horizontal-trim-not-blank", i))
                        else:
                            if row_view(vt, cols, False) != full[tt + i][0]:
                                errs.append(("vertical-trim-wrong-line", i))
                        if errs:
                            break
                    if errs:
                        res.violation("%s:%s" % (key, errs[0][0]), "%s canvas %dx%d trim (left=%d, top=%d, cols=%d, rows=%d): %r [%s]" % (case["style"], C, R, tl, tt, cols, rows, errs[:3], case), dict(case, trim=[tl, tt, cols, rows]))
                        if res.too_many():
                            return
    # two views of the same rows consumed alternately, row by row -- the way urwid's
    # CompositeCanvas consumes the parts of an image left and right of an overlay
    if text and C >= 3 and R >= 2:
        for _ in range(6):
            a = rnd.randint(1, C - 2)
            b = rnd.randint(a + 1, C - 1)
            tt = rnd.randrange(R - 1)
            rows = rnd.randint(2, R - tt)
            views = [(0, tt, a, rows), (b, tt, C - b, rows), (a, tt, b - a, rows)][: rnd.randint(2, 3)]
            gens = [iter(canv.content(*v)) for v in views]
            res.count("interleaved views of one canvas")
            bad = None
            for i in range(rows):
                for v, g in zip(views, gens):
                    try:
                        segs = next(g)
                    except StopIteration:
                        bad = ("row-count", v, i)
                        break
                    vt = run_row(segs, v[2], personality)
                    if vt.c != v[2] or vt.autowraps:
                        bad = ("row-width", v, i, vt.c)
                    elif row_view(vt, v[2], True) != full[tt + i][0][v[0] : v[0] + v[2]]:
                        bad = ("cells-differ", v, i)
                    if bad:
                        break
                if bad:
                    break
            if bad:
                res.violation("%s:interleaved:%s" % (key, bad[0]), "%s canvas %dx%d: views %s consumed alternately: %r [%s]" % (case["style"], C, R, views, bad, case), dict(case, views=views))
                break
    res.cases += ntr
    res.count("canvases")
    res.count("sub-rectangles requested", ntr)
    res.extra["distinct_trims"] = res.extra.get("distinct_trims", 0) + ntr
    res.case(case)
    res.sample(dict(case, canvas=[C, R], sub_rectangles=ntr))


def flow_sweep(rnd, env, res, n):
    """rows() announced by a flow widget == rows of the canvas it then renders."""
    from PIL import Image
    from term_image.widget import UrwidImage

    from ..lib import set_terminal, style_classes

    for _ in range(n):
        style = rnd.choice(["block", "kitty", "iterm2"])
        cell = (rnd.randint(1, 12), rnd.randint(1, 24))
        set_terminal(env, 80, 30, *cell)
        src = (rnd.randint(1, 60), rnd.randint(1, 60))
        if rnd.random() < 0.4:
            # sources whose original size in cells is close to the available width
            src = (rnd.randint(1, 14) * (cell[0] if style != "block" else 1) + rnd.randint(-1, 1), rnd.randint(1, 40))
            src = (max(1, src[0]), src[1])
        w = UrwidImage(style_classes()[style](Image.new("RGB", src)), rnd.choice(["", "<.^", ">._"]), upscale=rnd.random() < 0.5)
        size = (rnd.randint(1, 16),)
        # what happened to the (possibly shared) image before rows() is asked
        pre = rnd.choice(["fresh", "fresh", "box-then-flow", "manual-size", "shared-widget", "flow-other-width", "asked-then-font-change", "asked-then-font-change"])
        image = w.image
        ratio0 = None
        if pre == "asked-then-font-change":
            # the widget has announced (and perhaps rendered) at this very width before the
            # font -- cell size for the graphics styles, cell ratio for the text styles --
            # changed: what it announces now goes with what it renders now
            import term_image

            w.rows(size)
            if rnd.random() < 0.5:
                w.render(size)
            ratio0 = term_image.get_cell_ratio()
            cell = (rnd.randint(1, 12), rnd.randint(1, 24))
            set_terminal(env, 80, 30, *cell)
            term_image.set_cell_ratio(rnd.choice([0.25, 0.5, 1.0, 2.0, round(rnd.uniform(0.2, 2.5), 2)]))
        if pre == "box-then-flow":
            c = w.render((rnd.randint(1, 40), rnd.randint(1, 12)))
            size = (image.size[0],) if isinstance(image.size, tuple) else size
        elif pre == "manual-size":
            image.set_size(size[0], rnd.randint(1, 9))
        elif pre == "shared-widget":
            other = UrwidImage(image, "", upscale=not (w._ti_sizing is not None and rnd.random() < 0.5))
            other.render(size) if rnd.random() < 0.5 else other.render((size[0], rnd.randint(1, 9)))
        elif pre == "flow-other-width":
            w.render((rnd.randint(1, 16),))
        announced = w.rows(size)
        rendered = w.render(size).rows()
        if ratio0 is not None:
            term_image.set_cell_ratio(ratio0)
        res.count("flow widgets: rows() vs render().rows()")
        res.count("flow pre-state " + pre)
        res.case(("flow", style, src, cell, size, pre))
        if announced != rendered:
            res.violation("C17:%s:rows-announced" % style, "flow widget %s src=%s cell=%s cols=%d (image %s beforehand) announces %d rows, renders %d" % (style, src, cell, size[0], pre, announced, rendered), dict(kind="flow"))
            if res.too_many():
                return


def gen(rnd):
    style = rnd.choice(["block", "block", "block", "kitty", "iterm2"])
    box = rnd.random() < 0.6
    return dict(
        style=style,
        src=[rnd.randint(1, 8), rnd.randint(1, 10)],
        cell=[rnd.randint(2, 6), rnd.randint(4, 10)],
        spec=rnd.choice("<|>") + "." + rnd.choice("^-_") + rnd.choice(["", "#", "#.5", "#a0b0c0", "##"]),
        upscale=rnd.random() < 0.5,
        size=[rnd.randint(1, 14), rnd.randint(1, 9)] if box else [rnd.randint(1, 14)],
        seed=rnd.getrandbits(32),
        resize_between=rnd.random() < 0.3,
    )


def run_shard(shard, env):
    from ..lib import setup_styles

    res = Result(shard)
    setup_styles(env)
    try:
        if "replay" in shard:
            c = dict(shard["replay"])
            c.pop("trim", None)
            run_canvas(c, env, res)
            return res.as_dict()
        rnd = random.Random("%s/c17/%s" % (shard["seed"], shard["index"]))
        for _ in range(shard["count"]):
            case = gen(rnd)
            try:
                run_canvas(case, env, res)
            except Exception:
                res.violation("C17:exception", traceback.format_exc()[-1500:], case)
            if res.too_many():
                break
        flow_sweep(rnd, env, res, 150 * shard["count"])
    except Exception:
        res.inconclusive.append(traceback.format_exc()[-2000:])
    d = res.as_dict()
    d["distinct_count"] = res.extra.pop("distinct_trims", 0)
    d["extra"] = {}
    return d
