"""C01 -- a render output occupies exactly its advertised rectangle (DESIGN.md 3/C01)."""

from __future__ import annotations

import os
import shutil
import tempfile

from ..common import MODES, Result, make_anim_file, make_image, shard_rng
from ..env import vt_personality
from ..oracles import check_rect

ID = "C01"
LEVEL = "exploration"
NEEDS_PTY = True
RULE = (
    "random (source image: size/mode/pattern/animated frame) x style x method x style args x alpha x "
    "sizing mode x terminal size x cell size x identity x start position, plus the complete grid "
    "W,H in 1..6 x style x method x alpha kind per identity; a case is non-trivial when the render "
    "was produced and executed on the reference terminal; distinct = distinct (style, method, "
    "identity, alpha kind, W, H, start-column class, source kind) tuples"
)
ASSUMPTIONS = [
    "VTerm (vf/vterm.py) models the terminal: CSI parameter 0 = 1, cursor movement clamped at the "
    "margins, ECH clamped, iTerm2 inline images leave the cursor on the image's last row just past "
    "its last column (doNotMoveCursor=1 keeps it), kitty a=T with C=1 does not move the cursor",
    "a render is a block: its newlines return to the block's own left edge (anchor column modelled "
    "as a left margin), as every consumer in the library uses it",
    "all glyphs emitted are one column wide",
    "terminal identity is established by the library itself through real queries answered by the "
    "scripted terminal; unsupported styles are instantiated with the public forced_support",
]
PERSONAS = ["other", "kitty-0.19", "kitty-0.25", "kitty-0.32", "konsole", "wezterm", "iterm2"]
SIZES = {"quick": 500, "thorough": 100000}
MIN_EVENTS = {"renders executed": {"quick": 2000, "thorough": 300000}}

ALPHAS = ["", "#", "#.5", "#.0", "#.999", "##", "#a0b1c2", "#000000"]
METHODS = {"block": [""], "kitty": ["", "L", "W"], "iterm2": ["", "L", "W", "A"]}


def plan(tier, seed):
    shards = []
    for p in PERSONAS:
        shards.append(dict(persona=p, kind="grid", seed=seed, index=0))
        n = 2 if tier == "quick" else 4
        for i in range(n):
            shards.append(dict(persona=p, kind="random", seed=seed, index=i, count=SIZES[tier] // n))
    return shards


def alpha_kind(a):
    return {"": "default", "#": "none", "##": "termbg"}.get(a, "hex" if len(a) == 7 else "thr")


def run_case(case, env, res, tmpdir, state):
    import term_image
    from term_image.image import Size

    from ..lib import set_terminal, style_classes

    cls = style_classes()[case["style"]]
    cols, rows = case["term"]
    cw, ch = case["cell"]
    set_terminal(env, cols, rows, cw, ch, tuple(case.get("px_extra", (0, 0))))
    if "ratio" in case:
        term_image.set_cell_ratio(case["ratio"])

    import random

    rnd = random.Random(case["img_seed"])
    sw, sh = case["src"]
    closer = None
    if case["source"] == "pil":
        pil = make_image(rnd, sw, sh, case["mode"], case.get("pattern"))
        image = cls(pil, **case["size_kw"]) if case["size_kw"] is not None else cls(pil)
    elif case["source"] == "file":
        path = os.path.join(tmpdir, "s%d.png" % state["n"])
        make_image(rnd, sw, sh, case["mode"] if case["mode"] not in ("CMYK", "HSV", "PA", "LA") else "RGBA").save(path)
        image = cls.from_file(path, **(case["size_kw"] or {}))
    else:  # animated file
        path = os.path.join(tmpdir, "a%d.%s" % (state["n"], case["anim_fmt"].lower()))
        make_anim_file(rnd, path, sw, sh, case["frames"], case["anim_fmt"])
        image = cls.from_file(path, **(case["size_kw"] or {}))
        image.seek(case["frame"])
    state["n"] += 1
    if case.get("size_enum"):
        image.size = getattr(Size, case["size_enum"])
    if case.get("jpeg") is not None and case["style"] == "iterm2":
        image.jpeg_quality = case["jpeg"]
    if case.get("rff") is not None and case["style"] == "iterm2":
        image.read_from_file = case["rff"]
    if case.get("set_method"):
        image.set_render_method(case["set_method"])

    how = case["how"]
    if how == "iterate" and case["source"] == "anim":
        return run_iterate(case, image, env, res, cols, rows)
    W, H = image.rendered_size
    if case.get("cell2"):
        # the font changes (same number of columns and lines, other cell size) after the
        # size has been asked for once: what is advertised now is what counts
        set_terminal(env, cols, rows, *case["cell2"], tuple(case.get("px_extra", (0, 0))))
        if "ratio" in case:
            term_image.set_cell_ratio(case["ratio"])
        W, H = image.rendered_size
        res.count("renders after a cell-size change on an unchanged terminal size")
    # the size is advertised in three places
    if (image.rendered_width, image.rendered_height) != (W, H):
        res.violation("C01:%s:advertised-size" % case["style"], "rendered_width x rendered_height = %s x %s, rendered_size = %s (size setting %r, source %s)" % (image.rendered_width, image.rendered_height, (W, H), image.size, case.get("src")), case)
        return
    if W > cols or H > rows:
        res.count("skipped: does not fit terminal")
        return
    spec = "1.1" + case["alpha"] + (("+" + case["stylespec"]) if case["stylespec"] else "")
    if case.get("abort_at"):
        # a render of the same image interrupted (Ctrl-C) somewhere inside the style's
        # render function comes first: what it leaves behind must not show in the next one
        if aborted_render(image, case["abort_at"]):
            res.count("renders preceded by an interrupted render")
    for render_pass in (1, 2):
        if render_pass == 2:
            if not case.get("resize2") or res.too_many():
                break
            kind, f1, f2 = case["resize2"]
            w2, h2 = 1 + f1 * (cols - 1) // 1000, 1 + f2 * (rows - 1) // 1000
            if kind == "set_size_both":
                image.set_size(w2, h2)
            elif kind == "size_tuple":
                image.size = (w2, h2)
            elif kind == "width":
                image.width = w2
            elif kind == "height":
                image.height = h2
            elif kind == "set_size_w":
                image.set_size(width=w2)
            elif kind == "set_size_h":
                image.set_size(height=h2)
            elif kind == "fit":
                image.size = Size.FIT
            W, H = image.rendered_size
            if (image.rendered_width, image.rendered_height) != (W, H):
                res.violation("C01:%s:advertised-size" % case["style"], "after %s: rendered_width x rendered_height = %s x %s, rendered_size = %s" % (kind, image.rendered_width, image.rendered_height, (W, H)), case)
                break
            if W > cols or H > rows:
                res.count("skipped: does not fit terminal")
                break
            res.count("second renders of an instance after its size was set again (%s)" % kind)
        errs = _render_and_check(case, image, env, res, how, spec, W, H, cols, rows)
        if errs:
            break
    image.close()


def _render_and_check(case, image, env, res, how, spec, W, H, cols, rows):
    if how == "str":
        out = str(image)
    elif how == "format":
        out = format(image, spec)
    else:  # private renderer path with blend=False (what animations use)
        _, _, _, _, alpha, sargs = image._check_format_spec(spec)
        out = image._renderer(image._render_image, alpha, blend=False, **sargs)
    size_after = image.rendered_size
    if (image.rendered_width, image.rendered_height) != size_after:
        size_after = (image.rendered_width, image.rendered_height)
    r0 = case["r0f"] * (rows - H) // 1000
    c0 = case["c0f"] * (cols - W) // 1000
    errs, vt = check_rect(out, W, H, rows, cols, r0, c0, vt_personality(env.persona_name))
    if size_after != (W, H):
        errs.append(("rendered_size changed by rendering", (W, H), size_after))
    res.count("renders executed")
    res.count("cells verified", W * H)
    res.count("placements verified", len(vt.placements) + len(vt.images))
    for k, v in vt.log.items():
        res.count("seq " + k, v)
    res.case(
        (
            case["style"],
            case["stylespec"][:1] or case.get("set_method") or "",
            env.persona_name,
            alpha_kind(case["alpha"]) if how != "str" else "str",
            W,
            H,
            0 if c0 == 0 else (2 if c0 + W == cols else 1),
            case["source"],
        )
    )
    res.sample({k: case[k] for k in ("style", "how", "alpha", "stylespec", "term", "cell", "src", "mode", "source")} | {"rendered": [W, H], "at": [r0, c0], "bytes": len(out)})
    if errs:
        res.violation(
            "C01:%s:%s" % (case["style"], errs[0][0]),
            "%s %s %r render %dx%d at (%d,%d) on %dx%d [%s]: %r"
            % (case["style"], how, spec, W, H, r0, c0, cols, rows, env.persona_name, errs[:4]),
            case,
        )
    return errs


def aborted_render(image, k):
    """str(image) with a KeyboardInterrupt raised at the k-th line executed inside the
    style's _render_image (and the functions nested in it); True if it was interrupted."""
    import sys
    import types

    mon = sys.monitoring
    TOOL = 2
    codes = []

    def collect(code):
        codes.append(code)
        for c in code.co_consts:
            if isinstance(c, types.CodeType):
                collect(c)

    collect(type(image)._render_image.__code__)
    n = [0]

    def cb(code, line):
        n[0] += 1
        if n[0] == k:
            raise KeyboardInterrupt

    mon.use_tool_id(TOOL, "vf-c01-abort")
    try:
        mon.register_callback(TOOL, mon.events.LINE, cb)
        for c in codes:
            mon.set_local_events(TOOL, c, mon.events.LINE)
        try:
            str(image)
            return False
        except KeyboardInterrupt:
            return True
        finally:
            for c in codes:
                mon.set_local_events(TOOL, c, 0)
            mon.register_callback(TOOL, mon.events.LINE, None)
    finally:
        mon.free_tool_id(TOOL)


def run_iterate(case, image, env, res, cols, rows):
    """Frames yielded by an image iterator are render outputs too: each must occupy the
    rectangle the image advertises at that moment (sizes change between loops, and back)."""
    from term_image.image import ImageIterator

    spec = "1.1" + case["alpha"] + (("+" + case["stylespec"]) if case["stylespec"] else "")
    sizes = case["iter_sizes"]
    it = ImageIterator(image, -1, spec, case["iter_cached"])
    n = case["frames"]
    try:
        for loop, (w, h) in enumerate(sizes):
            image.set_size(min(w, cols), min(h, rows))
            W, H = image.rendered_size
            for f in range(n):
                out = next(it)
                errs, vt = check_rect(out, W, H, rows, cols, 0, 0, vt_personality(env.persona_name))
                res.count("renders executed")
                res.count("iterator frames executed")
                res.count("cells verified", W * H)
                if errs:
                    res.violation("C01:%s:iterator:%s" % (case["style"], errs[0][0]), "%s ImageIterator(cached=%s) loop %d frame %d after sizes %s: rendered_size %dx%d: %r" % (case["style"], case["iter_cached"], loop, f, sizes[: loop + 1], W, H, errs[:3]), case)
                    return
    finally:
        it.close()
        image.close()
    res.case((case["style"], "iterate", env.persona_name, str(sizes), case["iter_cached"]))


def gen_random(rnd, persona):
    style = rnd.choice(["block", "kitty", "iterm2"])
    cols = rnd.choice([rnd.randint(1, 12), rnd.randint(1, 200), rnd.randint(20, 100)])
    rows = rnd.choice([rnd.randint(1, 8), rnd.randint(1, 60)])
    cw, ch = rnd.choice([(rnd.randint(1, 20), rnd.randint(1, 40)), (rnd.randint(1, 4), rnd.randint(1, 6)), (8, 16), (10, 20)])
    src = (
        rnd.choice([rnd.randint(1, 8), rnd.randint(1, 96)]),
        rnd.choice([rnd.randint(1, 8), rnd.randint(1, 96)]),
    )
    sizing = rnd.choice(["manual", "manual", "width", "height", "enum", "default"])
    size_kw, size_enum = None, None
    if sizing == "manual":
        size_kw = dict(width=rnd.randint(1, min(cols, 40)), height=rnd.randint(1, min(rows, 20)))
    elif sizing == "width":
        size_kw = dict(width=rnd.randint(1, min(cols, 40)))
    elif sizing == "height":
        size_kw = dict(height=rnd.randint(1, min(rows, 20)))
    elif sizing == "enum":
        size_enum = rnd.choice(["FIT", "AUTO", "ORIGINAL", "FIT_TO_WIDTH"])
    source = rnd.choice(["pil", "pil", "pil", "file", "anim"])
    if style == "kitty":
        parts = [rnd.choice(["", "L", "W"])]
        if rnd.random() < 0.4:
            parts.append("z%d" % rnd.choice([0, 1, -1, 2**31 - 1, -(2**31 - 1), rnd.randint(-(2**31) + 1, 2**31 - 1)]))
        if rnd.random() < 0.4:
            parts.append("m%d" % rnd.randint(0, 1))
        if rnd.random() < 0.5:
            parts.append("c%d" % rnd.randint(0, 9))
        stylespec = "".join(parts)
    elif style == "iterm2":
        parts = [rnd.choice(["", "L", "W", "A"])]
        if rnd.random() < 0.4:
            parts.append("m%d" % rnd.randint(0, 1))
        if rnd.random() < 0.5:
            parts.append("c%d" % rnd.randint(0, 9))
        stylespec = "".join(parts)
    else:
        stylespec = ""
    how = rnd.choice(["format"] * 6 + ["str"] + (["blend"] * 2 if style == "kitty" else []))
    case = dict(
        style=style,
        term=[cols, rows],
        cell=[cw, ch],
        cell2=[rnd.randint(1, 30), rnd.randint(1, 40)] if rnd.random() < 0.15 else None,
        px_extra=[rnd.randint(0, cw - 1) if rnd.random() < 0.3 else 0, rnd.randint(0, ch - 1) if rnd.random() < 0.3 else 0],
        src=list(src),
        mode=rnd.choice(MODES),
        pattern=None,
        source=source,
        size_kw=size_kw,
        size_enum=size_enum,
        alpha=rnd.choice(ALPHAS),
        stylespec=stylespec,
        how=how,
        img_seed=rnd.getrandbits(32),
        r0f=rnd.choice([0, 1000, rnd.randint(0, 1000)]),
        c0f=rnd.choice([0, 1000, rnd.randint(0, 1000)]),
    )
    if rnd.random() < 0.3:
        case["ratio"] = rnd.choice([0.5, 0.25, 1.0, round(rnd.uniform(0.1, 3), 3)])
    if source == "anim" and rnd.random() < 0.4:
        case["how"] = "iterate"
        a = [rnd.randint(1, 10), rnd.randint(1, 6)]
        b = [rnd.randint(1, 10), rnd.randint(1, 6)]
        case["iter_sizes"] = rnd.choice([[a, b, a], [a, b, a, b], [a, a, b], [a, b, b, a]])
        case["iter_cached"] = rnd.choice([True, True, False, 100])
        if "A" in case["stylespec"]:
            case["stylespec"] = case["stylespec"].replace("A", "W")
    if source == "anim":
        case["frames"] = rnd.randint(2, 4)
        case["frame"] = rnd.randrange(case["frames"])
        case["anim_fmt"] = rnd.choice(["GIF", "GIF", "WEBP", "PNG"])
        case["src"] = [rnd.randint(1, 24), rnd.randint(1, 24)]
    if style == "iterm2":
        case["jpeg"] = rnd.choice([None, None, -1, 0, 50, 95])
        case["rff"] = rnd.choice([None, True, False])
    if style != "block" and rnd.random() < 0.2:
        case["set_method"] = rnd.choice(["lines", "whole", "WHOLE"] + (["anim"] if style == "iterm2" else []))
    if rnd.random() < 0.15:
        case["abort_at"] = rnd.randint(3, 400)
    if case["how"] != "iterate" and rnd.random() < 0.3:
        # the same instance is given another size after its first render (each of the ways
        # of sizing it) and rendered again: nothing of the first render may show
        case["resize2"] = [rnd.choice(["set_size_both", "size_tuple", "width", "height", "set_size_w", "set_size_h", "fit", "same"]), rnd.randint(0, 1000), rnd.randint(0, 1000)]
    return case


def gen_grid():
    for style in ("block", "kitty", "iterm2"):
        for meth in METHODS[style]:
            for alpha in ("", "#", "#.5", "##", "#a0b1c2"):
                for W in range(1, 7):
                    for H in range(1, 7):
                        yield dict(
                            style=style,
                            term=[W + (W * 7 + H) % 4, H + (W + H * 3) % 3],
                            cell=[3, 5],
                            src=[2, 2],
                            mode="RGBA",
                            pattern="noise",
                            source="pil",
                            size_kw=dict(width=W, height=H),
                            size_enum=None,
                            alpha=alpha,
                            stylespec=meth,
                            how="format",
                            img_seed=W * 31 + H,
                            r0f=(W * 211 + H * 97) % 1001,
                            c0f=(W * 89 + H * 401) % 1001,
                        )

    # kitty transmissions whose base64 payload is an exact number of 4096-character chunks
    # (uncompressed 24- and 32-bit data of 1024 x k / 768 x k pixels), one short of it and
    # one past it: the last chunk is the one that carries m=0
    for meth in ("W", "L"):
        for alpha, mode in (("#", "RGB"), ("", "RGBA")):
            for cell, (W, H) in (([8, 16], (4, 2)), ([8, 16], (8, 4)), ([8, 12], (4, 2)), ([8, 12], (8, 3)), ([8, 16], (4, 1)), ([16, 16], (4, 4)), ([8, 16], (5, 2)), ([8, 16], (3, 2))):
                yield dict(
                    style="kitty",
                    term=[W + 3, H + 2],
                    cell=cell,
                    src=[W * cell[0], H * cell[1]],
                    mode=mode,
                    pattern="noise",
                    source="pil",
                    size_kw=dict(width=W, height=H),
                    size_enum=None,
                    alpha=alpha,
                    stylespec=meth + "c0",
                    how="format",
                    img_seed=W * 131 + H,
                    r0f=500,
                    c0f=500,
                )


def run_shard(shard, env):
    import term_image

    from ..lib import setup_styles

    res = Result(shard)
    sup = setup_styles(env)
    res.extra["support_%s" % shard["persona"]] = str(sup)
    tmpdir = tempfile.mkdtemp(prefix="vf-c01-")
    state = {"n": 0}
    try:
        if "replay" in shard:
            cases = [shard["replay"]]
        elif shard["kind"] == "grid":
            cases = gen_grid()
        else:
            rnd = shard_rng(shard)
            rnd.random()
            rnd = __import__("random").Random("%s/%s/%s" % (shard["seed"], shard["persona"], shard["index"]))
            cases = (gen_random(rnd, shard["persona"]) for _ in range(shard["count"]))
        for case in cases:
            try:
                term_image.set_cell_ratio(0.5)
                run_case(case, env, res, tmpdir, state)
            except Exception as e:  # an exception is not a C01 matter unless unexpected
                import traceback

                from term_image.exceptions import RenderError

                if isinstance(e, RenderError):
                    # documented failure mode of ANIM with unknown format etc.
                    res.count("render errors (documented)")
                    continue
                res.violation(
                    "C01:exception:%s" % type(e).__name__,
                    "unexpected %s: %s\n%s" % (type(e).__name__, e, traceback.format_exc()[-1500:]),
                    case,
                )
            if state["n"] % 50 == 0:
                for f in os.listdir(tmpdir):
                    try:
                        os.remove(os.path.join(tmpdir, f))
                    except OSError:
                        pass
    finally:
        shutil.rmtree(tmpdir, ignore_errors=True)
    return res.as_dict()
