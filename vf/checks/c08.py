"""C08 -- a render iterator yields exactly the frames its operation history dictates."""

from __future__ import annotations

import random
import traceback

from .. import iterhist as ih
from ..common import Result
from ..models.iterator import IterModel

ID = "C08"
LEVEL = "exploration"
NEEDS_PTY = True
MAXLEN = {"quick": 4, "thorough": 6}
N_RANDOM = {"quick": 1500, "thorough": 40000}
EXHAUSTIVE = {"quick": True, "thorough": True}
EXHAUSTIVE_NOTE = (
    "exhaustive over ALL operation sequences of length <= 4 (quick) / <= 6 (thorough) over a 12-symbol alphabet "
    "(next, 6 seeks incl. an out-of-range one, set_frame_duration, set_padding, set_render_args, set_render_size, "
    "close) for frame counts 2 and 3, loops 1 and 2, cache on and off; the random histories are sampling"
)
RULE = (
    "all short operation sequences (see exhaustive_note) plus random histories of <= 60 operations over next / seek "
    "(START, CURRENT, END; in and out of range) / set_frame_duration (int, DYNAMIC, invalid) / set_padding (exact, "
    "aligned absolute, aligned terminal-relative) / set_render_args (compatible, parent's, incompatible) / "
    "set_render_size / terminal resize / close, on definite (2..6 frames) and INDEFINITE sources, loops in "
    "{-1,1,2,3}, cache in {False, True, n-1, n, n+1}; every step's observation (frame number, duration, size, "
    "output, error, loop countdown, renderable.tell(), what an INDEFINITE source was handed) is compared with the "
    "reference model; distinct = distinct (configuration, history) pairs"
)
ASSUMPTIONS = [
    "reference model vf/models/iterator.py (from the RenderIterator docstrings and the [#ri-nf] footnote)",
    "what a padded frame looks like is delegated to the library's own Padding.pad (decided separately by C05)",
    "the first render of an INDEFINITE source may be announced as (0, START) or (0, CURRENT): same frame",
    "relative paddings are resolved against the terminal size when they are handed over",
]
MIN_EVENTS = {"steps compared with the model": {"quick": 100000, "thorough": 2000000}}
SHARDS = 16


def plan(tier, seed):
    return [dict(persona="other", seed=seed, index=i, n=SHARDS, tier=tier, winsize=[30, 12, 0, 0]) for i in range(SHARDS)]


def run_history(cfg, ops, env, res, term0=(30, 12)):
    """Returns None if the real iterator followed the model, else a message."""
    env.set_winsize(*term0)
    term = list(term0)
    subj = ih.make_subject(cfg)
    tell0 = subj.tell()
    it = ih.make_iterator(subj, cfg)
    if cfg.get("reuse") is not None and cfg.get("n"):
        res.count("histories on an iterator built over render data an earlier iterator had used")
    m = IterModel(cfg["n"], cfg["loops"], cfg.get("indef_len"))
    sh = ih.Shadow(cfg, term)
    states = res.extra.setdefault("_states", set()) if False else None
    for i, op in enumerate(ops):
        if op[0] == "resize":
            term[:] = op[1:3]
        exp = ih.apply_model(m, sh, op, term, subj.dyn)
        ncalls = subj.calls
        got = ih.apply_real(it, op, env)
        res.count("steps compared with the model")
        if got != exp:
            return "step %d %r: observed %r, model says %r" % (i, op, _short(got), _short(exp))
        if it.loop != m.loop:
            return "step %d %r: loop countdown is %r, model says %r" % (i, op, it.loop, m.loop)
        if subj.tell() != tell0:
            return "step %d %r: renderable.tell() moved from %r to %r" % (i, op, tell0, subj.tell())
        if m.indef and op[0] == "next" and subj.calls > ncalls:
            handed = subj.log[-1][:2]
            if handed not in m.handed:
                return "step %d next: INDEFINITE source was handed %r, model says %r" % (i, handed, m.handed)
            res.count("indefinite hand-overs checked")
        if op[0] == "next":
            res.count("state " + ("closed" if m.closed else "boundary" if (not m.indef and m.next >= m.n) else "indef-pending" if m.pending else "mid"))
    it.close()
    return None


def _short(obs):
    return tuple((o[:40] + "..") if isinstance(o, str) and len(o) > 42 else o for o in obs)


def minimise(cfg, ops, env, res):
    """Delta-debugging: drop operations while the disagreement persists."""
    cur = list(ops)
    changed = True
    while changed and len(cur) > 1:
        changed = False
        for i in range(len(cur)):
            cand = cur[:i] + cur[i + 1 :]
            try:
                if run_history(cfg, cand, env, Result({})):
                    cur = cand
                    changed = True
                    break
            except Exception:
                pass
    return cur


def classify(msg, ops):
    return "C08:" + ("loop" if "loop countdown" in msg else "tell" if "tell()" in msg else "handover" if "handed" in msg else "step:" + msg.split("'")[1] if "'" in msg else "step")


def loop_attribute_is_a_report(env, res):
    """``RenderIterator.loop`` is documented as a read-out ("modifying this doesn't affect
    the iterator"): whatever the caller writes there, the countdown and what a seek between
    two loops is relative to stay those of the model."""
    from term_image.renderable import Seek

    for loops, written, ok in ((1, 5, False), (2, 1, True), (3, 1, True), (2, -1, True)):
        cfg = dict(n=3, loops=loops, cache=False, dur0=7, size0=[2, 1], pad0=ih.PADS[0], kind="text", tag0=0, tell0=0)
        it = ih.make_iterator(ih.make_subject(cfg), cfg)
        for _ in range(3):
            next(it)
        it.loop = written
        try:
            it.seek(0, Seek.CURRENT)
            got = True
        except ValueError:
            got = False
        rest = sum(1 for _ in it)
        res.count("steps compared with the model", 2)
        want_rest = 3 * (loops - 1) + (3 if ok else 0) if ok else 0
        # (an accepted seek to frame 0 at the boundary stays in the current loop)
        if got != ok or rest != want_rest:
            res.violation("C08:step:seek", "loops=%d, one loop consumed, caller wrote loop=%r: seek(0, CURRENT) %s and %d more frames followed; the model (unaffected by the write) says %s and %d" % (loops, written, "accepted" if got else "rejected", rest, "accepted" if ok else "rejected", want_rest), dict(cfg=cfg, ops=[["next"]] * 3))


def run_shard(shard, env):
    res = Result(shard)
    try:
        if "replay" in shard:
            c = shard["replay"]
            msg = run_history(c["cfg"], c["ops"], env, res)
            res.case((c["cfg"], c["ops"]))
            if msg:
                res.violation(classify(msg, c["ops"]), msg, c)
            return res.as_dict()
        tier = shard["tier"]
        nex = 0
        if shard["index"] == 0:
            loop_attribute_is_a_report(env, res)
        for n in (2, 3):
            for loops in (1, 2):
                for cache in (False, True):
                    cfg = dict(n=n, loops=loops, cache=cache, dur0=7, size0=[2, 1], pad0=ih.PADS[0], kind="text", tag0=0, tell0=n - 1)
                    for ops in ih.all_histories(MAXLEN[tier] - (1 if cache and tier == "thorough" else 0), n, shard["index"], shard["n"]):
                        msg = run_history(cfg, ops, env, res)
                        nex += 1
                        if msg:
                            small = minimise(cfg, ops, env, res)
                            msg2 = run_history(cfg, small, env, Result({})) or msg
                            res.violation(classify(msg2, small), msg2 + " [cfg %s; minimised history %s]" % (cfg, small), dict(cfg=cfg, ops=small))
                            if res.too_many():
                                break
        res.count("exhaustive histories", nex)
        rnd = random.Random("%s/c08/%s" % (shard["seed"], shard["index"]))
        seen = set()
        for _ in range(N_RANDOM[tier]):
            cfg = ih.gen_config(rnd)
            ops = [ih.gen_op(rnd, cfg, with_resize=True) for _ in range(rnd.randint(1, 60))]
            msg = run_history(cfg, ops, env, res)
            seen.add(hash((str(cfg), str(ops))))
            res.count("random histories")
            if msg:
                small = minimise(cfg, ops, env, res)
                msg2 = run_history(cfg, small, env, Result({})) or msg
                res.violation(classify(msg2, small), msg2 + " [cfg %s; minimised history %s]" % (cfg, small), dict(cfg=cfg, ops=small))
                if res.too_many():
                    break
            elif len(res.samples) < 2:
                res.sample(dict(cfg=cfg, ops=ops[:12]))
        d = res.as_dict()
        d["cases"] = nex + N_RANDOM[tier]
        d["distinct"] = []
        d["distinct_count"] = nex + len(seen)
        return d
    except Exception:
        res.inconclusive.append(traceback.format_exc()[-2000:])
        return res.as_dict()
