"""C18 -- the urwid screen never leaves a ghost image behind."""

from __future__ import annotations

import gc
import io
import random
import sys
import traceback

from ..common import Result
from ..env import vt_personality
from ..vterm import VTerm

ID = "C18"
LEVEL = "exploration"
NEEDS_PTY = True
N_HIST = {"quick": 25, "thorough": 9000}
RULE = (
    "random layout histories (Columns / Pile / Overlay / LineBox / Filler / ListBox scrolling / grids of flow "
    "widgets of unequal heights with a moving split / an image widget or a SolidFill as the topmost widget; widgets appearing, "
    "moving, covered, removed and garbage-collected) over mixes of kitty, iterm2 and block image widgets under "
    "kitty, konsole and other identities; after every draw_screen the placements on the incrementally updated "
    "reference terminal must equal those obtained by executing the same canvas on a fresh one; the synchronized-"
    "update bracket, delete-all on start/stop/clear and the z-index invariant are checked; distinct = distinct "
    "(identity, history of layout kinds and actions) tuples"
)
ASSUMPTIONS = [
    "verdicts come from the placement layer, the sync bracket, the clear events and the z-index invariant only; "
    "text-layer parse anomalies (urwid 2.6.16 gives NUL width 0, so its last-row corner rewrite can split a "
    "trailing SGR) are counted, not judged",
    "kitty stacks placements at the same cell and z-index, konsole replaces them; text never removes a placement",
    "the z-index upper boundary is reached by presetting the allocator's counter (state injection)",
]
MIN_EVENTS = {"redraws compared with a full repaint": {"quick": 1500, "thorough": 40000}, "placements compared": {"quick": 1500, "thorough": 40000}}
SHARDS = 16
PERSONAS = ["kitty-0.32", "konsole", "kitty-0.32", "other"]


def plan(tier, seed):
    return [dict(persona=PERSONAS[i % 4], seed=seed, index=i, hists=N_HIST[tier], winsize=[80, 30, 320, 240]) for i in range(SHARDS)]


def mkimg(rnd):
    from PIL import Image

    w, h = rnd.randint(2, 12), rnd.randint(2, 12)
    im = Image.new("RGB", (w, h))
    im.putdata([(rnd.randrange(256), rnd.randrange(256), 0) for _ in range(w * h)])
    return im


def layout(rnd, widgets, urwid):
    ws = list(widgets)
    rnd.shuffle(ws)
    k = rnd.choice(["cols", "pile", "overlay", "overlay", "list", "colspile", "filler", "shift", "shift", "bare", "solid", "grid", "grid"])

    def txt():
        return urwid.Filler(urwid.Text("t" * rnd.randint(1, 30)))

    def deco(w):
        return rnd.choice([w, w, urwid.LineBox(w)])

    if k == "grid":
        # rows of flow widgets of different heights (multi-line texts, piles of texts) sharing
        # one movable vertical split; images sit in some of the cells.  Canvas views that
        # span several shards ("shard tails") end up left of, right of and between the views
        # that begin in a shard.
        a = rnd.randint(1, 12)

        def cell():
            r = rnd.random()
            if r < 0.35:
                return urwid.Text("\n".join("m%d" % i for i in range(rnd.randint(1, 3))), wrap="clip")
            if r < 0.6:
                return urwid.Pile([urwid.Text("p%d" % i, wrap="clip") for i in range(rnd.randint(1, 3))])
            return urwid.Text("")

        rows = []
        imgs = list(ws)
        for _ in range(rnd.randint(2, 4)):
            cells = [(a, cell())]
            for _ in range(rnd.randint(0, 2)):
                if imgs and rnd.random() < 0.5:
                    cells.append((rnd.randint(3, 9), imgs.pop()))
                else:
                    cells.append((rnd.randint(2, 7), cell()))
            cells.append(cell())
            rows.append(urwid.Columns(cells))
        top = urwid.Filler(urwid.Pile(rows), "top")
        top._vf_rows = rows
        return k, top
    if k == "bare":
        # the image widget itself is the topmost widget: its canvas reaches the screen unwrapped
        return k, ws[0]
    if k == "solid":
        # a topmost widget whose canvas is not a composite one (images disappear altogether)
        return k, urwid.SolidFill(rnd.choice("#. "))
    if k == "shift":
        # an image column of fixed width behind a spacer whose width the history changes:
        # the image keeps its size (same cached canvas) but moves horizontally/vertically
        sp = rnd.randint(0, 6)
        cols = urwid.Columns([(sp, urwid.SolidFill("s")), (rnd.randint(4, 10), ws[0]), urwid.SolidFill("r")])
        top = urwid.Pile([(rnd.randint(0, 3), urwid.SolidFill("u")), cols]) if rnd.random() < 0.5 else cols
        return k, top
    if k == "cols":
        return k, urwid.Columns([deco(w) for w in ws[: rnd.randint(1, 3)]] + [urwid.SolidFill("x")] * rnd.randint(0, 1))
    if k == "pile":
        return k, urwid.Pile([deco(w) for w in ws[: rnd.randint(1, 3)]] + [txt()] * rnd.randint(0, 1))
    if k == "overlay":
        top = urwid.LineBox(urwid.SolidFill("o")) if rnd.random() < 0.6 or len(ws) < 2 else ws[-1]
        bottom = urwid.Columns(ws[:2]) if len(ws) > 1 and rnd.random() < 0.6 else ws[0]
        return k, urwid.Overlay(top, bottom, rnd.choice(["center", "left", "right"]), ("relative", rnd.choice([30, 50, 80])), rnd.choice(["middle", "top", "bottom"]), ("relative", rnd.choice([30, 50, 80])))
    if k == "list":
        items = [urwid.BoxAdapter(w, rnd.randint(2, 6)) for w in ws] + [urwid.Text("line %d" % i) for i in range(rnd.randint(0, 6))]
        rnd.shuffle(items)
        lb = urwid.ListBox(urwid.SimpleFocusListWalker(items))
        try:
            lb.set_focus(rnd.randrange(len(items)))
        except Exception:
            pass
        return k, lb
    if k == "filler":
        return k, urwid.Filler(urwid.BoxAdapter(ws[0], rnd.randint(2, 8)), rnd.choice(["top", "middle", "bottom"]))
    return k, urwid.Columns([urwid.Pile([w, txt()]) for w in ws[:2]])


_SUB = []


def _subclasses(base):
    if not _SUB:

        class Thumbnail(base):
            pass

        class Preview(Thumbnail):
            pass

        _SUB.extend([Thumbnail, Preview])
    return _SUB


def place_keys(vt):
    return sorted(set(vt.placement_keys()))


def run_history(seed, env, res):
    import urwid
    from term_image.image import BlockImage, ITerm2Image, KittyImage
    from term_image.widget import UrwidImage, UrwidImageScreen

    rnd = random.Random(seed)
    personality = vt_personality(env.persona_name)
    size = (rnd.randint(20, 50), rnd.randint(8, 20))
    case = dict(seed=seed, persona=env.persona_name)
    hist = []

    def fail(key, msg):
        res.violation("C18:" + key, "%s [identity %s, screen %s, history %s]" % (msg, env.persona_name, size, hist), case)

    buf = io.StringIO()
    screen = UrwidImageScreen(sys.__stdin__, buf)
    screen.start()
    T = VTerm(size[1], size[0], personality, cooked=False, fill=(" ", None, None))
    T.feed(buf.getvalue())
    buf.seek(0)
    buf.truncate()
    cleared = any(d[0] in "aA" for d in T.deletes)
    graphics_possible = personality in ("kitty", "konsole") or KittyImage.forced_support
    if graphics_possible and not cleared:
        fail("no-clear-on-start", "no delete-all after start()")
    styles = [KittyImage, KittyImage, BlockImage] + ([ITerm2Image] if personality == "konsole" else [])
    # applications subclass the widget; all image widgets share one z-index space
    wcls = [UrwidImage, UrwidImage, _subclasses(UrwidImage)[0], _subclasses(UrwidImage)[1]]

    def new_widget(plain=False):
        # (graphics widgets also with a style-specific part in their format specifier --
        # the explicit LINES method is what the class documentation recommends -- several
        # of them with the very same one)
        style = rnd.choice(styles)
        specs = ["", "<.^", ">._"] + (["+L", "+L", "+L", "<.^+L", "+c3"] if style is not BlockImage else [])
        return rnd.choice(wcls)(style(mkimg(rnd)), "" if plain and rnd.random() < 0.5 else rnd.choice(specs), upscale=rnd.random() < 0.5)

    widgets = [new_widget() for _ in range(rnd.randint(1, 4))]
    top = None
    kind = None
    try:
        for step in range(rnd.randint(2, 9)):
            act = rnd.choice(["new", "same", "new", "scroll", "drop", "add", "clear", "shift", "shift", "popup", "popup", "clear_images"])
            if act == "popup" and top is not None and kind == "popup":
                # the pop-up is dismissed: what it covered shows again, unchanged
                kind, top = top._vf_under
                res.count("pop-ups dismissed")
            elif act == "popup" and top is not None and kind != "solid":
                # a pop-up opens over the unchanged layout (same widgets, same cached
                # canvases): it covers a band on one side, the middle, or a full-height /
                # full-width strip of what is below
                under = (kind, top)
                top = urwid.Overlay(
                    urwid.LineBox(urwid.SolidFill("o")) if rnd.random() < 0.7 else urwid.SolidFill("o"),
                    top,
                    rnd.choice(["center", "left", "right", "right"]),
                    rnd.choice([("relative", 30), ("relative", 50), ("relative", 100), rnd.randint(1, size[0])]),
                    rnd.choice(["middle", "top", "bottom"]),
                    rnd.choice([("relative", 30), ("relative", 100), ("relative", 100), rnd.randint(1, size[1])]),
                )
                top._vf_under = under
                kind = "popup"
                res.count("pop-ups opened over an unchanged layout")
            elif act == "new" or top is None or act == "popup":
                kind, top = layout(rnd, widgets, urwid)
            elif act == "drop" and len(widgets) > 1:
                widgets.pop(rnd.randrange(len(widgets)))
                gc.collect()
                kind, top = layout(rnd, widgets, urwid)
            elif act == "add":
                widgets.append(new_widget(plain=True))
                kind, top = layout(rnd, widgets, urwid)
            elif act == "shift" and kind == "shift":
                cols = top.contents[1][0] if isinstance(top, urwid.Pile) else top
                w0, (t0, _, b0_) = cols.contents[0]
                cols.contents[0] = (w0, (t0, rnd.randint(0, 8), b0_))
                if isinstance(top, urwid.Pile) and rnd.random() < 0.5:
                    u0, (tt, _) = top.contents[0]
                    top.contents[0] = (u0, (tt, rnd.randint(0, 4)))
            elif act == "shift" and kind == "grid":
                a = rnd.randint(1, 14)
                for r in top._vf_rows:
                    w0 = r.contents[0][0]
                    r.contents[0] = (w0, r.options("given", a))
            elif act == "scroll" and isinstance(top, urwid.ListBox):
                top.keypress(size, rnd.choice(["down", "up", "page down", "page up"]))
            elif act == "clear_images" and top is not None:
                # the application clears images itself (all of them or those of some
                # widgets; at once or with the next flush) and then redraws something that
                # was invalidated: the redraw puts back every image of its canvas
                now = rnd.random() < 0.5
                chosen = [] if rnd.random() < 0.5 else rnd.sample(widgets, rnd.randint(1, len(widgets)))
                env.capturing = True
                env.take()
                try:
                    screen.clear_images(*chosen, now=now)
                    direct = env.take()
                finally:
                    env.capturing = False
                # (what went to the terminal directly arrives before the buffered output)
                T.feed(direct.decode("utf-8", "replace"))
                # (like clear(), an explicit clear is not a redraw: what it has written by
                # now is fed separately, not held against the redraw's bracket)
                T.feed(buf.getvalue())
                buf.seek(0)
                buf.truncate()
                top._invalidate()
                act += ":%d%s" % (len(chosen), "now" if now else "")
                res.count("explicit clear_images() calls followed by a redraw" + (" (now=True)" if now else ""))
            elif act == "clear":
                T.deletes = []
                screen.clear()
                # clear() is not a redraw: its output is fed separately
                T.feed(buf.getvalue())
                buf.seek(0)
                buf.truncate()
            hist.append(act + ":" + str(kind))
            canv = top.render(size, True)
            T.outside_sync = 0
            b0, e0 = T.sync_begins, T.sync_ends
            winch = rnd.random() < 0.15
            if winch:
                # a window-size signal arrived just before this redraw: urwid does not draw
                # until the resize has been handled, the main loop then draws the same canvas
                # (the size turned out unchanged)
                hist[-1] += "+winch"
                screen._resized = True
                screen.draw_screen(size, canv)
                T.feed(buf.getvalue())
                buf.seek(0)
                buf.truncate()
                screen._resized = False
                res.count("redraws postponed by a pending window-size signal")
            screen.draw_screen(size, canv)
            out = buf.getvalue()
            buf.seek(0)
            buf.truncate()
            T.feed(out)
            res.count("redraws compared with a full repaint")
            if act == "clear" and graphics_possible and not any(d[0] in "aA" for d in T.deletes):
                fail("no-clear-on-clear", "clear() did not delete the images")
                return
            # the same canvas on a fresh terminal = what the screen must show
            R = VTerm(size[1], size[0], personality, cooked=False, fill=(" ", None, None))
            for i, row in enumerate(canv.content()):
                R.feed("\x1b[%d;1H" % (i + 1) + b"".join(seg[2] for seg in row).decode())
            exp, got = place_keys(R), place_keys(T)
            res.count("placements compared", len(exp))
            if exp != got:
                ghost = sorted(set(got) - set(exp))
                missing = sorted(set(exp) - set(got))
                if ghost:
                    fail("ghost-image", "step %d: %d placement(s) left on screen that the canvas does not contain: %s" % (step, len(ghost), [g[:6] for g in ghost[:3]]))
                else:
                    fail("missing-image", "step %d: %d image(s) of the canvas are not on screen (deleted but never redrawn): %s" % (step, len(missing), [g[:6] for g in missing[:3]]))
                return
            if personality == "kitty" and len(T.placements) != len(set(T.placement_keys())):
                fail("stacked-duplicates", "step %d: identical placements stacked on top of each other" % step)
                return
            if T.outside_sync:
                fail("outside-sync", "step %d: %d state-changing operations outside the synchronized-update bracket" % (step, T.outside_sync))
                return
            if (T.sync_begins - b0, T.sync_ends - e0) != ((2, 2) if winch else (1, 1)) or not out.startswith("\x1b[?2026h") or not out.endswith("\x1b[?2026l"):
                fail("sync-bracket", "step %d: redraw output not bracketed by one begin/end pair" % step)
                return
            for a in T.malformed + [x for x in T.aborted if "kitty" in x or "STR" in x]:
                fail("graphics-command-corrupted", "step %d: %s" % (step, a))
                return
            res.count("text-layer anomalies (not judged)", len(T.unknown) + len(T.aborted))
            del T.unknown[:], T.aborted[:]
            zs = [w._ti_z_index for w in widgets if hasattr(w, "_ti_z_index")]
            if len(zs) != len(set(zs)) or any(not -(2**31) < z < 2**31 for z in zs):
                fail("z-index", "live kitty widgets hold z-indexes %s" % zs)
                return
        T.deletes = []
        screen.stop()
        T.feed(buf.getvalue())
        if graphics_possible and (T.placements or not any(d[0] in "aA" for d in T.deletes)):
            fail("not-cleared-on-stop", "images left after stop()")
        res.case((env.persona_name, tuple(hist)))
    finally:
        try:
            if screen._started:
                screen.stop()
        except Exception:
            pass
        del widgets, top
        gc.collect()


def zindex_boundary(env, res):
    """Allocation near the int32 limits (allocator counter preset)."""
    from PIL import Image
    from term_image.exceptions import UrwidImageError
    from term_image.image import KittyImage
    from term_image.widget import UrwidImage

    saved = (UrwidImage._ti_next_z_index, set(UrwidImage._ti_free_z_indexes))
    try:
        UrwidImage._ti_free_z_indexes.clear()
        UrwidImage._ti_next_z_index = 2**31 - 2
        im = Image.new("RGB", (2, 2))
        ws = []
        got_error = False
        for i in range(6):
            try:
                ws.append(UrwidImage(KittyImage(im)))
            except UrwidImageError:
                got_error = True
                break
        zs = [w._ti_z_index for w in ws]
        res.count("z-index boundary allocations", len(zs))
        if len(zs) != len(set(zs)) or any(not -(2**31) < z < 2**31 for z in zs):
            res.violation("C18:z-index-boundary", "allocations at the boundary: %s" % zs, dict(kind="zboundary"))
        if not got_error:
            res.violation("C18:z-index-boundary", "allocator went past the int32 range without an error: %s" % zs, dict(kind="zboundary"))
        # freed indexes are reusable and stay distinct
        freed = ws.pop()._ti_z_index
        gc.collect()
        w2 = UrwidImage(KittyImage(im))
        zs = [w._ti_z_index for w in ws] + [w2._ti_z_index]
        if len(zs) != len(set(zs)):
            res.violation("C18:z-index-reuse", "after freeing %d: %s" % (freed, zs), dict(kind="zboundary"))
        del ws, w2
        gc.collect()
    finally:
        UrwidImage._ti_next_z_index = saved[0]
        UrwidImage._ti_free_z_indexes.clear()
        UrwidImage._ti_free_z_indexes.update(saved[1])


def last_row_scenario(env, res):
    """An image widget that reaches the bottom-right corner of the screen (a title above an
    image filling the rest: nothing unusual), redrawn in each state of the canvas
    "disguise": every image line of the canvas must be on the terminal afterwards."""
    import urwid
    from PIL import Image
    from term_image.image import ITerm2Image, KittyImage
    from term_image.widget import UrwidImage, UrwidImageScreen

    personality = vt_personality(env.persona_name)
    if personality not in ("kitty", "konsole"):
        return
    size = (20, 8)
    for style in (ITerm2Image, KittyImage) if personality == "konsole" else (KittyImage,):
        buf = io.StringIO()
        screen = UrwidImageScreen(sys.__stdin__, buf)
        screen.start()
        T = VTerm(size[1], size[0], personality, cooked=False, fill=(" ", None, None))
        try:
            widget = UrwidImage(style(Image.new("RGB", (40, 28), (200, 30, 30))), upscale=True)
            header = urwid.Text("title")
            top = urwid.Pile([("pack", header), widget])
            for step, text in enumerate(("title", "title\nsubtitle", "title", "title\nsubtitle", "title")):
                header.set_text(text)
                canv = top.render(size, focus=True)
                screen.draw_screen(size, canv)
                T.feed(buf.getvalue())
                buf.seek(0)
                buf.truncate()
                R = VTerm(size[1], size[0], personality, cooked=False, fill=(" ", None, None))
                for i, row in enumerate(canv.content()):
                    R.feed("\x1b[%d;1H" % (i + 1) + b"".join(seg[2] for seg in row).decode())
                exp, got = place_keys(R), place_keys(T)
                res.count("redraws with an image on the last screen row")
                missing = sorted(set(exp) - set(got))
                if missing:
                    res.violation(
                        "C18:missing-image-on-last-screen-row",
                        "%s widget reaching the bottom-right corner, redraw %d: %d image line(s) of the canvas are not on the terminal (%s); terminal parser state %r [identity %s]" % (style.__name__, step, len(missing), [m[:6] for m in missing[:2]], T.state, env.persona_name),
                        dict(kind="lastrow", persona=env.persona_name),
                    )
                    break
                if sorted(set(got) - set(exp)):
                    res.violation("C18:ghost-image", "last-row scenario, %s, redraw %d: placements left that the canvas does not contain" % (style.__name__, step), dict(kind="lastrow", persona=env.persona_name))
                    break
        finally:
            screen.stop()
        res.case(("lastrow", style.__name__, env.persona_name))


def run_shard(shard, env):
    from ..lib import set_terminal, setup_styles

    res = Result(shard)
    setup_styles(env)
    set_terminal(env, 80, 30, 4, 8)
    env.capturing = False
    try:
        if "replay" in shard:
            c = shard["replay"]
            if c.get("kind") == "zboundary":
                zindex_boundary(env, res)
            elif c.get("kind") == "lastrow":
                last_row_scenario(env, res)
            else:
                run_history(c["seed"], env, res)
            return res.as_dict()
        rnd = random.Random("%s/c18/%s" % (shard["seed"], shard["index"]))
        for _ in range(shard["hists"]):
            seed = rnd.getrandbits(40)
            try:
                run_history(seed, env, res)
            except Exception:
                res.violation("C18:exception", traceback.format_exc()[-1800:], dict(seed=seed, persona=env.persona_name))
            if len(res.samples) < 2:
                res.sample(dict(seed=seed, persona=env.persona_name))
            if res.too_many():
                break
        zindex_boundary(env, res)
        try:
            last_row_scenario(env, res)
        except Exception:
            res.violation("C18:exception", "last-row scenario: " + traceback.format_exc()[-1500:], dict(kind="lastrow", persona=env.persona_name))
    except Exception:
        res.inconclusive.append(traceback.format_exc()[-2000:])
    return res.as_dict()
