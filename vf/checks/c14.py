"""C14 -- terminal access is serialized across threads and processes."""

from __future__ import annotations

import glob
import json
import os
import random
import shutil
import sys
import tempfile
import threading
import time
import traceback

from ..common import Result

ID = "C14"
LEVEL = "exploration"
NEEDS_PTY = True
N_RUNS = {"quick": 48, "thorough": 3200}
SHARD_TIMEOUT = {"quick": 90, "thorough": 120}
RULE = (
    "each run is a fresh process tree under a pty: 1..8 threads x 0..3 child processes (x grandchildren) created "
    "as Process(target=...), as a Process subclass overriding run(), through a context's own Process class, with a "
    "target that imports the library only once it runs, or behind a relay process that never imports the library at all, started with fork / spawn / forkserver at random moments while the other threads hammer lock_tty-decorated probes "
    "(nesting depth 0..2, random hold times) and id-echoing terminal queries; delays are injected in the lock "
    "hand-over window (around mp_RLock / Array creation) and at line level inside lock_tty_wrapper / "
    "_process_start_wrapper / _process_run_wrapper; in 15 % of the runs one thread stays inside a synchronized call for 1.3..2.2 s across the first start; every probe logs [enter, exit] stamps taken inside its body "
    "from CLOCK_MONOTONIC; the merged logs are swept offline for overlapping intervals of different (pid, tid) "
    "and every query must have received exactly its own reply; after their first batch of operations all "
    "processes of the tree rendezvous (ready files) and run a second batch while the whole tree is alive, so that "
    "root, children and grandchildren are demonstrably at work simultaneously (counted per pair and start "
    "method); distinct = distinct run configurations"
)
ASSUMPTIONS = [
    "interval stamps are taken inside the synchronized body, so two overlapping intervals of different threads or "
    "processes prove concurrent execution (no false positives from clock skew: one system-wide monotonic clock)",
    "Process.start() is never issued from inside a synchronized call (documented as unsupported)",
    "a run that does not finish within its watchdog is inconclusive, not a violation",
]
MIN_EVENTS = {"probe intervals swept": {"quick": 8000, "thorough": 250000}, "queries matched with their reply": {"quick": 1500, "thorough": 50000}, "process pairs at work simultaneously": {"quick": 60, "thorough": 4000}}
METHODS = ["fork", "spawn", "forkserver"]


def plan(tier, seed):
    rnd = random.Random("c14-plan-%s" % seed)
    shards = []
    for i in range(N_RUNS[tier]):
        cfg = dict(
            method=METHODS[i % 3],
            threads=rnd.randint(1, 8),
            children=rnd.choice([0, 1, 1, 2, 3]),
            child_threads=rnd.randint(0, 3),
            grandchildren=rnd.choice([0, 0, 1]),
            depth=2,
            ops=rnd.choice([20, 40, 60]),
            delays=rnd.random() < 0.7,
            line_yields=rnd.random() < 0.6,
            concurrent_starts=rnd.random() < 0.5,
            create=rnd.choice(["target", "target", "subclass", "context", "lazy", "relay"]),
            failing_first_start=rnd.random() < 0.35,
        )
        if i % 12 in (1, 2):
            # (in every tier: relays under spawn and forkserver, where they really never
            # import the library)
            cfg.update(create="relay", children=max(1, cfg["children"]))
        if rnd.random() < 0.15 and cfg["children"]:
            cfg["long_hold"] = rnd.choice([1.3, 1.6, 2.2])
        if cfg["create"] == "context":
            # the context's method need not be the default one
            cfg["ctx_method"] = rnd.choice(METHODS)
        cfg["expect_procs"] = 1 + cfg["children"] * (1 + cfg["grandchildren"]) if rnd.random() < 0.75 else 0
        shards.append(dict(persona="other", persona_kw=dict(name="foot", version="1.16.2", xtversion=True), seed=seed, index=i, cfg=cfg, winsize=[80, 24, 640, 384]))
    return shards


class LineYields:
    TOOL = 4

    def __init__(self, seed):
        self.seed = seed
        self.local = threading.local()
        self.events = 0

    def codes(self):
        from term_image import utils

        return [utils.write_tty.__wrapped__.__code__, utils._process_start_wrapper.__code__, utils._process_run_wrapper.__code__]

    def cb(self, code, line):
        rnd = getattr(self.local, "rnd", None)
        if rnd is None:
            rnd = self.local.rnd = random.Random("%s/%s" % (self.seed, threading.get_ident()))
        self.events += 1
        r = rnd.random()
        if r < 0.3:
            time.sleep(0)
        elif r < 0.4:
            time.sleep(rnd.uniform(0.00005, 0.0005))

    def __enter__(self):
        mon = sys.monitoring
        mon.use_tool_id(self.TOOL, "vf-c14")
        mon.register_callback(self.TOOL, mon.events.LINE, self.cb)
        for c in self.codes():
            mon.set_local_events(self.TOOL, c, mon.events.LINE)
        return self

    def __exit__(self, *a):
        mon = sys.monitoring
        for c in self.codes():
            mon.set_local_events(self.TOOL, c, 0)
        mon.register_callback(self.TOOL, mon.events.LINE, None)
        mon.free_tool_id(self.TOOL)


def finish(tot, tier):
    """A hang seen in at least three independent runs is a reproducible hang (a lost
    wake-up / deadlock on the terminal lock); fewer are inconclusive."""
    hung = tot["extra"].get("hung_runs", [])
    if len(hung) >= 3:
        tot["violations"].append(dict(key="C14:hang-reproducible", msg="%d independent runs did not finish (threads/processes blocked on the terminal lock or waiting for lost replies), e.g. %s" % (len(hung), hung[0]), case=hung[0], shard={}))
    elif hung:
        tot["inconclusive"].append("%d run(s) did not finish within the watchdog: %s" % (len(hung), hung[:2]))
    tot["extra"].pop("hung_runs", None)


def sweep(intervals):
    """-> list of overlapping pairs among intervals (who, t0, t1) of different owners."""
    pts = []
    for k, (who, t0, t1, tag) in enumerate(intervals):
        pts.append((t0, 1, k))
        pts.append((t1, 0, k))
    pts.sort()
    active = {}
    bad = []
    for t, kind, k in pts:
        who = intervals[k][0]
        if kind == 1:
            others = [j for j in active if intervals[j][0] != who]
            if others:
                bad.append((intervals[k], intervals[others[0]]))
            active[k] = True
        else:
            active.pop(k, None)
    return bad


def main_module_scenario(method, res, case):
    """A program whose main script makes a synchronized call at module level, run as a
    process of its own under this run's pty; its interval logs are swept like the others
    (reported under a key of its own: it is a different mechanism)."""
    import subprocess

    d = tempfile.mkdtemp(prefix="vf-c14m-")
    try:
        env2 = dict(os.environ, VF_C14_MAINMOD_DIR=d)
        try:
            subprocess.run([sys.executable, "-B", "-m", "vf.c14_mainmod", method], env=env2, cwd=os.path.dirname(os.path.dirname(os.path.dirname(os.path.abspath(__file__)))), timeout=90, stdin=subprocess.DEVNULL)
        except subprocess.TimeoutExpired:
            res.inconclusive.append("main-module scenario (%s) did not finish" % method)
            return
        intervals = []
        for path in glob.glob(os.path.join(d, "log-*.jsonl")):
            with open(path) as f:
                for line in f:
                    r = json.loads(line)
                    intervals.append(((r[1], r[2]), r[5], r[6], r[3]))
        res.count("probe intervals swept", len(intervals))
        children = {w[0][0] for w in intervals if w[3].startswith("module-level:__mp_main__")}
        res.count("module-level synchronized calls executed in spawned children (%s)" % method, len(children))
        bad = [(a, b) for a, b in sweep(intervals) if "module-level:__mp_main__" in (a[3], b[3])]
        other = [(a, b) for a, b in sweep(intervals) if "module-level:__mp_main__" not in (a[3], b[3])]
        if other:
            a, b = other[0]
            res.violation("C14:overlap", "%d overlapping synchronized intervals in the main-module program, e.g. %s (%s) and %s (%s); start method %s" % (len(other), a[0], a[3], b[0], b[3], method), case)
        if bad:
            a, b = bad[0]
            res.violation(
                "C14:overlap-module-level-call-in-child",
                "%d overlaps between a synchronized call made at module level of the main script -- executed in a %s child while it re-imports that script -- and synchronized calls elsewhere in the tree, e.g. %s [%d..%d] (%s) and %s [%d..%d] (%s)" % (len(bad), method, a[0], a[1], a[2], a[3], b[0], b[1], b[2], b[3]),
                case,
            )
    finally:
        shutil.rmtree(d, ignore_errors=True)


def inner_thread_scenario(res, case):
    """A worker thread started from *inside* a synchronized call of an otherwise
    single-threaded program (vf/c14_inner_thread.py, a process of its own): none of the
    worker's synchronized calls may begin before the outer call has returned."""
    import subprocess

    try:
        r = subprocess.run([sys.executable, "-B", "-W", "ignore", "-m", "vf.c14_inner_thread"], capture_output=True, text=True, cwd=os.path.dirname(os.path.dirname(os.path.dirname(os.path.abspath(__file__)))), timeout=60, stdin=subprocess.DEVNULL)
        d = json.loads(r.stdout.strip().splitlines()[-1])
    except Exception as e:
        res.inconclusive.append("inner-thread scenario: %s" % type(e).__name__)
        return
    res.count("inner-thread programs run")
    res.count("probe intervals swept", len(d["inner"]) + 1)
    if d["alive"] or len(d["inner"]) < 4 or not d["nested"]:
        res.inconclusive.append("inner-thread scenario: the worker made %d of 3 calls (+1 nested), still alive: %s" % (len(d["inner"]), d["alive"]))
        return
    early = [iv for iv in d["inner"] if iv[0] < d["outer"][1]]
    if early:
        res.violation("C14:overlap", "a thread started inside a synchronized call (%d thread(s) alive at its entry) ran %d synchronized call(s) of its own before that call returned: outer [%d..%d], inner %s" % (d["threads_at_entry"], len(early), d["outer"][0], d["outer"][1], early[:2]), case)


def run_shard(shard, env):
    res = Result(shard)
    cfg = shard["cfg"]
    workdir = tempfile.mkdtemp(prefix="vf-c14-")
    os.environ["VF_C14_DIR"] = workdir
    env.capturing = False
    try:
        import multiprocessing as mp

        mp.set_start_method(cfg["method"])
        import term_image  # noqa: F401
        from term_image import utils

        from .. import c14_child as cc

        seed = hash((shard["seed"], shard["index"])) & 0xFFFFFF
        if cfg["delays"]:
            cc.install_delays(seed)
        rnd = random.Random(seed)
        lock_type0 = type(utils._tty_lock).__name__
        procs = []
        ctx = LineYields(seed) if cfg["line_yields"] else None
        if ctx:
            ctx.__enter__()
        try:
            # every hammering thread is a daemon: the main thread only supervises, so that a
            # deadlock on the terminal lock cannot keep the run from reporting
            expect = cfg.get("expect_procs", 0)
            cc.announce_ready()
            ths = [threading.Thread(target=cc.hammer, args=("main.t%d" % i, cfg["ops"], seed * 13 + i, True, True, expect), daemon=True, name="main.t%d" % i) for i in range(cfg["threads"])]
            ths.append(threading.Thread(target=cc.hammer, args=("main", cfg["ops"], seed, True, True, expect), daemon=True, name="main.hammer"))
            for t in ths:
                t.start()
            procs_lock = threading.Lock()
            start_errors = []
            nstart = cfg["children"]
            gate = threading.Barrier(nstart) if cfg.get("concurrent_starts") and nstart > 1 else None

            t_first_start = None
            if cfg.get("long_hold"):
                # one thread stays inside a synchronized call (a read with a long time-out,
                # say) across the first-ever start of this process: the start has to wait
                # for it, however long -- nothing may run alongside it in the meantime
                lt = threading.Thread(target=cc.get_probe(), args=("main.long", 0, cfg["long_hold"]), daemon=True, name="main.long")
                lt.start()
                ths.append(lt)
                time.sleep(0.05)
                t_first_start = time.monotonic_ns()

            if cfg.get("failing_first_start") and cfg["method"] != "fork":
                # the very first start of this process fails while the other threads are
                # at work (one of them may be inside a synchronized call at that moment)
                time.sleep(rnd.uniform(0, 0.01))
                for _ in range(rnd.randint(1, 2)):
                    if cc.failing_start():
                        res.count("Process.start() calls that failed (unpicklable argument)")

            def start_one(j):
                p = cc.make_process(cfg, (cfg, "c%d" % j, seed * 3 + j, 1))
                with procs_lock:
                    procs.append(p)
                if gate is not None:
                    gate.wait(10)  # the (first-ever) starts of this process race each other
                try:
                    p.start()  # outside any synchronized call
                except Exception as e:
                    start_errors.append("%s: %s" % (type(e).__name__, e))
                    for _ in range(1 + cfg["grandchildren"]):
                        cc.announce_ready()  # on behalf of the processes that never came to be

            def starter():
                for j in range(nstart):
                    time.sleep(rnd.uniform(0, 0.004))
                    start_one(j)

            if gate is not None:
                sts = [threading.Thread(target=start_one, args=(j,), daemon=True, name="starter%d" % j) for j in range(nstart)]
            else:
                sts = [threading.Thread(target=starter, daemon=True, name="starter")]
            for st in sts:
                st.start()
            for st in sts:
                st.join(25)
                if st.is_alive():
                    ths.append(st)
            deadline = time.monotonic() + 25
            for t in ths:
                t.join(max(0.1, deadline - time.monotonic()))
            for p in procs:
                if p.pid:
                    p.join(max(0.1, deadline - time.monotonic()))
        finally:
            if ctx:
                ctx.__exit__()
        hung = [t.name for t in ths if t.is_alive()] + ["process %s" % p.pid for p in procs if p.pid and p.is_alive()]
        for p in procs:
            if p.pid and p.is_alive():
                p.kill()
        lock_type1 = type(utils._tty_lock).__name__
        # offline judgement over the merged logs
        intervals, queries, done, stolen = [], [], [], []
        for path in glob.glob(os.path.join(workdir, "log-*.jsonl")):
            with open(path) as f:
                for line in f:
                    r = json.loads(line)
                    if r[0] == "I":
                        intervals.append(((r[1], r[2]), r[5], r[6], r[3]))
                        if r[3] == "main.long" and t_first_start and r[5] < t_first_start < r[6]:
                            res.count("first Process.start() issued while another thread was inside a long synchronized call")
                        if r[8]:
                            res.count("intervals that saw the lock object change (hand-over window hit)")
                        res.count("intervals under " + r[7])
                    elif r[0] == "Q":
                        queries.append(r)
                    elif r[0] == "C":
                        res.count("compound queries compared with the terminal's identity")
                        if tuple(r[4]) != ("foot", "1.16.2"):
                            stolen.append("get_terminal_name_version() = %r in %s (the reply was lost or taken by another caller)" % (r[4], (r[1], r[2])))
                    elif r[0] == "B":
                        stolen.append("a bystander's read_tty_all() in %s received %r: a reply addressed to another caller" % ((r[1], r[2]), r[4][:40]))
                    elif r[0] == "S":
                        start_errors.append(r[3])
                    elif r[0] == "R":
                        res.count("relay processes (between the root and a process using the library; %s) that %s the library" % (cfg["method"], "had imported" if r[3] else "never imported"))
                    elif r[0] == "b":
                        res.count("bystander reads that found nothing (as they must)")
                    else:
                        done.append(r)
        res.count("probe intervals swept", len(intervals))
        res.count("processes observed", len({w[0][0] for w in intervals}))
        res.count("threads observed", len({w[0] for w in intervals}))
        res.count("start method " + cfg["method"])
        res.count("processes created as " + {"subclass": "a Process subclass overriding run()", "context": "get_context(method).Process(target=...)", "lazy": "Process(target=<function of a module that imports the library only when called>)", "relay": "Process(target=<function of a module that never imports the library, starting a process that does>)"}.get(cfg.get("create"), "Process(target=...)"))
        # which processes were really at work at the same time (spans of the rendezvous phase)
        spans = {}
        for who, t0, t1, tag in intervals:
            if tag.endswith("/all"):
                lvl = "grandchild" if ".g" in tag else "child" if tag.startswith("c") else "root"
                a = spans.setdefault((who[0], lvl), [t0, t1])
                a[0], a[1] = min(a[0], t0), max(a[1], t1)
        keys = sorted(spans)
        for i, a in enumerate(keys):
            for b in keys[i + 1 :]:
                if spans[a][0] < spans[b][1] and spans[b][0] < spans[a][1]:
                    res.count("process pairs at work simultaneously: %s + %s (%s)" % (a[1], b[1], cfg["method"]))
                    res.count("process pairs at work simultaneously")
        if ctx:
            res.count("line-level yield events", ctx.events)
        case = dict(cfg=cfg, seed=shard["seed"], index=shard["index"])
        res.case(str(cfg))
        res.sample(dict(cfg, intervals=len(intervals), queries=len(queries), lock_before=lock_type0, lock_after=lock_type1))
        if hung:
            # one hang is inconclusive; reproducible hangs are judged across runs in finish()
            res.count("runs that did not finish within their watchdog")
            res.extra["hung_runs"] = [dict(cfg=cfg, hung=hung[:4], index=shard["index"])]
        bad = sweep(intervals)
        if bad:
            a, b = bad[0]
            res.violation(
                "C14:overlap",
                "%d overlapping synchronized intervals, e.g. %s [%d..%d] (%s) and %s [%d..%d] (%s); start method %s" % (len(bad), a[0], a[1], a[2], a[3], b[0], b[1], b[2], b[3], cfg["method"]),
                case,
            )
        for q in queries:
            want = "\x1b_VFID%d\x1b\\" % q[4]
            if q[5] == want:
                res.count("queries matched with their reply")
            elif not hung:
                res.violation("C14:reply-mismatch", "query %d by %s got %r (lost or delivered to another caller); start method %s" % (q[4], (q[1], q[2]), q[5][:60], cfg["method"]), case)
                break
        if start_errors:
            res.violation("C14:start-raised", "Process.start() of a process created as %s (context method %s, default start method %s) raised %s" % (cfg.get("create"), cfg.get("ctx_method"), cfg["method"], start_errors[0][:300]), case)
        if stolen and not hung:
            res.violation("C14:reply-stolen", "%d observations, e.g. %s; start method %s" % (len(stolen), stolen[0], cfg["method"]), case)
        if (shard["index"] in (1, 2) and cfg["method"] != "fork" and "replay" not in shard) or (shard.get("replay") or {}).get("mainmod"):
            main_module_scenario(cfg["method"], res, dict(case, mainmod=True))
        if (shard["index"] in (0, 3) and "replay" not in shard) or (shard.get("replay") or {}).get("inner_thread"):
            inner_thread_scenario(res, dict(case, inner_thread=True))
        exits = [p.exitcode for p in procs if p.pid]
        if any(e not in (0, None) for e in exits) and not hung:
            res.inconclusive.append("child exit codes %s (cfg %s)" % (exits, cfg))
    except Exception:
        res.inconclusive.append(traceback.format_exc()[-2000:])
    finally:
        shutil.rmtree(workdir, ignore_errors=True)
    return res.as_dict()
