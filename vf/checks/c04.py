"""C04 -- automatic sizing fits the frame, fills it and preserves aspect ratio."""

from __future__ import annotations

import math
import random
import traceback
from fractions import Fraction as F

from ..common import Result
from ..models import sizing as model

ID = "C04"
LEVEL = "exploration"
NEEDS_PTY = True
RULE = (
    "stateless: original size 1..5000^2 (log-uniform, squares, 1xN, Nx1) x terminal 1..400 x 1..120 x cell size "
    "1..40 px (set on the pty with TIOCSWINSZ) x cell ratio 0.05..8 x absolute/relative frame x every sizing mode x "
    "both style families, judged by an exact-rational oracle; stateful: histories of set_size / size= / width= / "
    "height= / resize / set_cell_ratio / render / read against a fixed-vs-dynamic shadow; distinct = distinct "
    "(family, mode, constraining axis, clamp) classes x log-bucketed geometry, histories by content"
)
ASSUMPTIONS = [
    "oracle: vf/models/sizing.py in exact fractions (Fraction(cell_ratio)); AUTO decision three-valued within "
    "+-0.5 px of the frame; a free dimension may be 1 when the exact value is below 1",
    "terminal size and cell size are real pty properties (TIOCSWINSZ); the library's cell-size cache is dropped "
    "through the public win-size-swap toggles after every pixel-size change",
]
N_CALLS = {"quick": 10000, "thorough": 700000}
N_HIST = {"quick": 150, "thorough": 15000}
MIN_EVENTS = {"sizing results judged": {"quick": 100000, "thorough": 3000000}}
SHARDS = 16


def plan(tier, seed):
    return [dict(persona="other", seed=seed, index=i, calls=N_CALLS[tier], hists=N_HIST[tier]) for i in range(SHARDS)]


def logu(rnd, a, b):
    return int(round(math.exp(rnd.uniform(math.log(a), math.log(b)))))


def new_image(cls, ori):
    from PIL import Image

    # a real (tiny-memory) PIL image of the wanted size: mode "1" = 1 bit per pixel
    return cls(Image.new("1", ori))


class Facts:
    """What the harness itself set up (not read back from the library)."""

    def __init__(self):
        self.term = (80, 24)
        self.cell = None
        self.ratio = 0.5
        self.mode = None  # "DYNAMIC" / "FIXED" while an automatic cell-ratio mode is set


def apply_env(env, facts, cols, rows, cw, ch, ratio):
    import term_image

    from ..lib import set_terminal

    set_terminal(env, cols, rows, cw, ch)
    facts.term = (cols, rows)
    facts.cell = (cw, ch) if cw and ch else None
    if ratio is None:
        ratio = facts.mode or facts.ratio  # keep the current setting
    if isinstance(ratio, str) and facts.cell:
        # the documented automatic modes: the ratio is the terminal's cell width / height
        # (DYNAMIC: whenever it is needed; FIXED: as of the call -- set anew here)
        term_image.AutoCellRatio.is_supported = None
        term_image.set_cell_ratio(getattr(term_image.AutoCellRatio, ratio))
        facts.mode, facts.ratio = ratio, cw / ch
    else:
        if isinstance(ratio, str):
            ratio = 0.5  # (no pixel size to go by: the modes are not supported)
        term_image.set_cell_ratio(ratio)
        facts.mode, facts.ratio = None, ratio


def judge_call(res, facts, family, ori, mode, value, frame, result, others, ctx):
    geo = model.geometry(family, facts.cell, facts.ratio)
    frame_cells = (model.absolute(frame[0], facts.term[0]), model.absolute(frame[1], facts.term[1]))
    errs, cls = model.judge(mode, value, result, ori, frame_cells, geo, others)
    res.count("sizing results judged")
    res.count("class " + family + ":" + cls)
    if errs:
        res.violation(
            "C04:%s:%s" % (family, errs[0][0]),
            "%s %s value=%s ori=%s term=%s cell=%s ratio=%r frame=%s -> %s: %r" % (family, mode, value, ori, facts.term, facts.cell, facts.ratio, frame, result, errs[:3]),
            ctx,
        )
    return cls


def stateless(case, env, res, facts):
    from term_image.image import BlockImage, KittyImage, Size

    family = case["family"]
    cls = BlockImage if family == "text" else KittyImage
    apply_env(env, facts, *case["term"], *case["cell"], case["ratio"])
    ori = tuple(case["ori"])
    im = new_image(cls, ori)
    frame = tuple(case["frame"])
    mode = case["mode"]
    others = None
    if mode == "width":
        out = im._valid_size(case["value"], None, frame)
    elif mode == "height":
        out = im._valid_size(None, case["value"], frame)
    else:
        out = im._valid_size(getattr(Size, mode), None, frame)
        if mode == "AUTO":
            others = dict(FIT=im._valid_size(Size.FIT, None, frame), ORIGINAL=im._valid_size(Size.ORIGINAL, None, frame))
    c = judge_call(res, facts, family, ori, mode, case.get("value"), frame, out, others, case)
    # the public entry points must agree with it
    if case.get("public"):
        if mode == "width":
            im.set_size(width=case["value"], frame_size=frame)
        elif mode == "height":
            im.set_size(height=case["value"], frame_size=frame)
        else:
            im.set_size(getattr(Size, mode), frame_size=frame)
        if im.size != out:
            res.violation("C04:set_size-differs", "set_size(%s) stored %s, _valid_size gave %s" % (mode, im.size, out), case)
    res.case((family, c, int(math.log2(ori[0])), int(math.log2(ori[1])), int(math.log2(facts.term[0])), frame[0] > 0))
    im.close()


def gen_stateless(rnd):
    ow, oh = logu(rnd, 1, 5000), logu(rnd, 1, 5000)
    r = rnd.random()
    if r < 0.1:
        ow = 1
    elif r < 0.2:
        oh = 1
    elif r < 0.3:
        oh = ow
    cols, rows = logu(rnd, 1, 400), logu(rnd, 1, 120)
    cw, ch = rnd.choice([(rnd.randint(1, 40), rnd.randint(1, 40)), (8, 16), (1, 1), (rnd.randint(1, 5), rnd.randint(1, 9))])
    if rnd.random() < 0.03:
        cw = ch = 0  # the terminal reports no pixel size
    ratio = rnd.choice([0.5, 0.5, rnd.uniform(0.05, 8.0), (cw or 1) / (ch or 2), 0.25, 1.0, 0.125 * rnd.randint(1, 40), 1 / 3, "DYNAMIC", "FIXED"])
    frame = rnd.choice([(0, -2), (0, 0), (logu(rnd, 1, 300), logu(rnd, 1, 100)), (-rnd.randint(0, 450), -rnd.randint(0, 150)), (rnd.randint(1, 10), -rnd.randint(0, 5))])
    mode = rnd.choice(["FIT", "FIT", "AUTO", "AUTO", "ORIGINAL", "FIT_TO_WIDTH", "width", "height"])
    case = dict(kind="stateless", family=rnd.choice(["text", "graphics"]), ori=[ow, oh], term=[cols, rows], cell=[cw, ch], ratio=ratio, frame=list(frame), mode=mode, public=rnd.random() < 0.2)
    if mode in ("width", "height"):
        case["value"] = logu(rnd, 1, 400)
    return case


def history(case, env, res, facts):
    """Random history on one image against the fixed-vs-dynamic shadow."""
    from term_image.image import BlockImage, KittyImage, Size

    rnd = random.Random(case["seed"])
    family = case["family"]
    cls = BlockImage if family == "text" else KittyImage
    ori = tuple(case["ori"])
    apply_env(env, facts, 80, 24, 8, 16, 0.5)
    im = new_image(cls, ori)
    shadow = ("dynamic", "FIT")  # constructor default
    ops = []

    def expect_dynamic(mode, what):
        out = im.rendered_size
        others = None
        if mode == "AUTO":
            others = dict(FIT=im._valid_size(Size.FIT), ORIGINAL=im._valid_size(Size.ORIGINAL))
        judge_call(res, facts, family, ori, mode, None, (0, -2), out, others, dict(case, ops=ops[:]))
        if im.size is not getattr(Size, mode):
            res.violation("C04:dynamic-size-lost", "%s: size is %r, expected Size.%s after %r" % (what, im.size, mode, ops[-3:]), dict(case, ops=ops[:]))
        if (im.rendered_width, im.rendered_height) != tuple(out):
            res.violation("C04:rendered_width/height", "rendered_width/height %s != rendered_size %s" % ((im.rendered_width, im.rendered_height), out), dict(case, ops=ops[:]))

    for step in range(case["steps"]):
        op = rnd.choice(["set_wh", "set_w", "set_h", "set_enum", "size_enum", "size_tuple", "width=", "height=", "resize", "resize", "ratio", "render", "render_fails", "read", "read"])
        ops.append(op)
        if op == "set_wh":
            w, h = rnd.randint(1, 300), rnd.randint(1, 200)
            im.set_size(w, h)
            shadow = ("fixed", (w, h))
        elif op == "size_tuple":
            w, h = rnd.randint(1, 300), rnd.randint(1, 200)
            im.size = (w, h)
            shadow = ("fixed", (w, h))
        elif op in ("set_w", "width=", "set_h", "height="):
            v = rnd.randint(1, 200)
            frame = (0, -2)
            if op == "set_w":
                frame = rnd.choice([(0, -2), (rnd.randint(1, 50), rnd.randint(1, 50))])
                im.set_size(width=v, frame_size=frame)
            elif op == "width=":
                im.width = v
            elif op == "set_h":
                im.set_size(height=v)
            else:
                im.height = v
            mode = "width" if op in ("set_w", "width=") else "height"
            judge_call(res, facts, family, ori, mode, v, frame, im.size, None, dict(case, ops=ops[:]))
            shadow = ("fixed", im.size)
        elif op == "set_enum":
            mode = rnd.choice(["FIT", "AUTO", "ORIGINAL", "FIT_TO_WIDTH"])
            frame = rnd.choice([(0, -2), (0, 0), (rnd.randint(1, 100), rnd.randint(1, 60)), (-rnd.randint(0, 90), -rnd.randint(0, 30))])
            others = None
            if mode == "AUTO":
                others = dict(FIT=im._valid_size(Size.FIT, None, frame), ORIGINAL=im._valid_size(Size.ORIGINAL, None, frame))
            if rnd.random() < 0.5:
                im.set_size(getattr(Size, mode), frame_size=frame)
            else:
                im.set_size(height=getattr(Size, mode), frame_size=frame)
            judge_call(res, facts, family, ori, mode, None, frame, im.size, others, dict(case, ops=ops[:]))
            shadow = ("fixed", im.size)  # set_size() always results in a fixed size
        elif op == "size_enum":
            mode = rnd.choice(["FIT", "AUTO", "ORIGINAL", "FIT_TO_WIDTH"])
            im.size = getattr(Size, mode)
            shadow = ("dynamic", mode)
        elif op == "resize":
            cw, ch = rnd.choice([(8, 16), (rnd.randint(1, 30), rnd.randint(1, 40))])
            apply_env(env, facts, logu(rnd, 1, 300), logu(rnd, 1, 100), cw, ch, None)
        elif op == "ratio":
            apply_env(env, facts, *facts.term, *(facts.cell or (0, 0)), rnd.choice([0.5, 1.0, rnd.uniform(0.1, 4), "DYNAMIC", "FIXED"]))
        elif op == "render_fails":
            # a draw that is refused after the size has been worked out (a style-specific
            # parameter nobody knows): the size *setting* is what it was
            try:
                im.draw(no_such_parameter=1)
                res.violation("C04:exception", "draw(no_such_parameter=1) did not raise", dict(case, ops=ops[:]))
            except Exception:
                pass
            env.take()
            res.count("draws refused inside histories")
        elif op == "render":
            # only render when it is cheap: small fixed sizes or small dynamic results
            rs = im.rendered_size
            if rs[0] * rs[1] <= 600 and (family == "text" or (facts.cell and rs[0] * rs[1] * facts.cell[0] * facts.cell[1] <= 40000)):
                if rnd.random() < 0.4:
                    # the terminal is resized (or the cell ratio changed) while the image is
                    # being rendered: the render keeps the size it started with, the size
                    # *setting* is untouched and follows the new conditions afterwards
                    real = im._render_image
                    change = rnd.choice(["resize", "resize", "ratio"])
                    new_term = (logu(rnd, 1, 300), logu(rnd, 1, 100))
                    new_ratio = rnd.choice([0.5, 1.0, rnd.uniform(0.1, 4), "DYNAMIC"])

                    def during(*a, **k):
                        if change == "resize":
                            apply_env(env, facts, *new_term, *(facts.cell or (0, 0)), None)
                        else:
                            apply_env(env, facts, *facts.term, *(facts.cell or (0, 0)), new_ratio)
                        return real(*a, **k)

                    im._render_image = during
                    try:
                        str(im)
                    finally:
                        del im._render_image
                    ops[-1] = "render+" + change
                    res.count("renders with a resize / ratio change landing inside")
                else:
                    str(im)
                res.count("renders inside histories")
            else:
                ops[-1] = "render-skipped"
        # after every step the observable size must match the shadow
        if shadow[0] == "fixed":
            if im.size != shadow[1] or im.rendered_size != shadow[1]:
                res.violation("C04:fixed-size-changed", "fixed size %s became %s (rendered %s) after %r" % (shadow[1], im.size, im.rendered_size, ops[-4:]), dict(case, ops=ops[:]))
                shadow = ("fixed", im.size)
            if not model.positive_ints(im.size):
                res.violation("C04:fixed-size-type", "size %r" % (im.size,), dict(case, ops=ops[:]))
            res.count("fixed-size observations")
        else:
            expect_dynamic(shadow[1], op)
            res.count("dynamic-size observations")
    res.case(("history", family, tuple(ops)))
    im.close()


def run_shard(shard, env):
    from ..lib import setup_styles

    res = Result(shard)
    setup_styles(env)
    facts = Facts()
    rnd = random.Random("%s/c04/%s" % (shard["seed"], shard["index"]))
    if "replay" in shard:
        cases = [shard["replay"]]
    else:
        cases = itertools_chain(
            (gen_stateless(rnd) for _ in range(shard["calls"])),
            (
                dict(kind="history", family=rnd.choice(["text", "graphics"]), ori=[logu(rnd, 1, 3000), logu(rnd, 1, 3000)], seed=rnd.getrandbits(32), steps=rnd.randint(5, 40))
                for _ in range(shard["hists"])
            ),
        )
    for case in cases:
        try:
            if case["kind"] == "stateless":
                stateless(case, env, res, facts)
            else:
                history(case, env, res, facts)
                res.count("histories")
                res.sample(case)
        except Exception:
            res.violation("C04:exception", traceback.format_exc()[-1500:], case)
        if res.too_many():
            break
    return res.as_dict()


def itertools_chain(*its):
    for it in its:
        yield from it
