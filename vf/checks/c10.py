"""C10 -- render data is finalized exactly once and never used afterwards."""

from __future__ import annotations

import gc
import random
import traceback

from ..common import Result

ID = "C10"
LEVEL = "fault_enumeration"
NEEDS_PTY = True
N_SCEN = {"quick": 60, "thorough": 1500}
RULE = (
    "scenarios over {str, render(padding), draw still, draw animated (loops, cache), full iteration, partial "
    "iteration + close twice, partial + drop reference, partial + seeks, Renderable.__iter__, "
    "_from_render_data_(finalize=True/False), two or three iterators alive together (constructor / handed-over "
    "data with either ownership / an animated draw in between) ended in any order} on definite and INDEFINITE subjects; each scenario is profiled "
    "fault-free to count its _render_ calls K and then re-run with an exception injected into the k-th render for "
    "EVERY k in 1..K and every exception kind (RuntimeError, AttributeError, StopIteration, KeyboardInterrupt, "
    "RenderError), plus failures of _get_render_size_ and size-validation failures (terminal made too small); "
    "after each run references are dropped and the garbage collector run; distinct = distinct (scenario, "
    "configuration, k, exception kind) tuples"
)
ASSUMPTIONS = [
    "every render-data object carries a unique token set in _get_render_data_; the subject's "
    "_finalize_render_data_ counts finalizations per token and _render_ records any use of finalized data",
    "a token counts as kept by the caller from the moment it is handed over with finalize=False",
    "sleeps inside draw() use 1 ms frame durations",
]
MIN_EVENTS = {"fault runs": {"quick": 8000, "thorough": 200000}, "render-data tokens audited": {"quick": 8000, "thorough": 200000}}
SHARDS = 16
EXCS = ["RuntimeError", "AttributeError", "StopIteration", "KeyboardInterrupt", "RenderError"]


def plan(tier, seed):
    return [dict(persona="other", seed=seed, index=i, scen=N_SCEN[tier], winsize=[40, 20, 0, 0]) for i in range(SHARDS)]


def make_exc(name):
    from term_image.renderable import RenderError

    return {"RuntimeError": RuntimeError("injected"), "AttributeError": AttributeError("injected"), "StopIteration": StopIteration(), "KeyboardInterrupt": KeyboardInterrupt(), "RenderError": RenderError("injected")}[name]


def run_scenario(sc, fault, env, res):
    """(see _run_scenario) -- optionally with the whole scenario taking place while an
    unrelated exception is being handled (a fall-back inside an ``except`` block, a
    clean-up during unwinding): that exception is none of the operation's business."""
    if sc.get("in_handler"):
        try:
            raise LookupError("unrelated; being handled while the scenario runs")
        except LookupError:
            return _run_scenario(sc, fault, env, res)
    return _run_scenario(sc, fault, env, res)


def _run_scenario(sc, fault, env, res):
    """fault = None | (k, excname) | ("size", excname) | ("too-small",).
    Returns (error message or None, number of _render_ calls)."""
    from term_image.geometry import Size
    from term_image.padding import AlignedPadding, ExactPadding
    from term_image.render import FinalizedIteratorError, RenderIterator
    from term_image.renderable import FrameCount, Seek

    from .. import subjects as S

    S.reset_tokens()
    env.capturing = False
    env.set_winsize(40, 20)
    kind = sc["kind"]
    indef = sc.get("indef_len") is not None
    # (some subjects are of a render class further down the hierarchy, with data and a
    # finalizer hook at two levels)
    subj = (S.SubjDeep if sc.get("deep") else S.Subj)(FrameCount.INDEFINITE if indef else sc["n"], 1, sc["size"], "text", indef_len=sc.get("indef_len"))
    if fault and fault[0] == "too-small":
        env.set_winsize(max(1, sc["size"][0] - 1), max(1, sc["size"][1] - 1))
    elif fault and fault[0] == "size":
        subj.size_fail = make_exc(fault[1])
    elif fault and fault[0] == "bad-args":
        pass  # see *rargs* below
    elif fault and fault[0] == "pad":
        pass  # see *pad_obj* below
    elif fault:
        subj.fail_at = (fault[0], make_exc(fault[1]))
    # render arguments of an unrelated render class: the operation is refused (whatever it
    # had created by then must not be left behind)
    rargs = None
    if fault and fault[0] == "bad-args":
        from term_image.renderable import RenderArgs

        rargs = RenderArgs(S.Other, S.OtherArgs(3))
    # a frame that cannot be padded (the k-th use of the padding fails): an error of the
    # iteration like a failing render
    pad_obj = ExactPadding()
    if fault and fault[0] == "pad":
        uses = [0]
        pad_exc = make_exc(fault[2])

        class FailingPad(ExactPadding):
            __slots__ = ()

            def pad(self, render, render_size):
                uses[0] += 1
                if uses[0] == fault[1]:
                    raise pad_exc
                return super().pad(render, render_size)

        pad_obj = FailingPad(1, 0, 1, 1)
    kept = []  # tokens handed over with finalize=False (caller keeps ownership)
    kept_data = []
    errs = []
    outcome = "ok"
    it = None
    its = []

    def after_close_checks(it):
        # after exhaustion / close / error the iterator is closed: control operations are
        # refused first (a next() could close it as a side effect and mask the defect)
        for name, fn in (("seek", lambda: it.seek(0)), ("set_frame_duration", lambda: it.set_frame_duration(5)), ("set_padding", lambda: it.set_padding(ExactPadding())), ("set_render_size", lambda: it.set_render_size(Size(1, 1)))):
            try:
                fn()
                errs.append("%s() accepted on a finalized iterator" % name)
            except FinalizedIteratorError:
                pass
            except Exception as e:
                errs.append("%s() on a finalized iterator raised %s" % (name, type(e).__name__))
        try:
            next(it)
            errs.append("next() after the end did not stop")
        except StopIteration:
            pass
        except Exception as e:
            errs.append("next() after the end raised %s" % type(e).__name__)
        it.close()
        it.close()

    # For operations whose completion defines the moment of finalization the harness
    # holds its own reference to every render-data object, so that finalization by the
    # garbage collector (RenderData.__del__) cannot stand in for the explicit one.
    hold = kind != "iter_drop"
    S.hold_refs = hold
    del S.held[:]

    try:
        if kind == "str":
            str(subj)
        elif kind == "render":
            subj.render(rargs, AlignedPadding(sc["size"][0] + 2, sc["size"][1] + 1))
        elif kind == "draw_still":
            subj.draw(rargs, animate=False, check_size=sc.get("check", True))
        elif kind == "draw_anim":
            subj.draw(rargs, loops=sc["loops"], cache=sc["cache"])
        elif kind == "iter_dunder":
            for f in subj:
                pass
        elif kind in ("iter_full", "iter_close", "iter_drop", "iter_seek"):
            it = RenderIterator(subj, rargs, pad_obj, sc["loops"], sc["cache"])
            steps = 10**6 if kind == "iter_full" else sc["steps"]
            done = False
            for i in range(steps):
                if kind == "iter_seek" and i % 2 and not indef:
                    it.seek(sc["seeks"][i % len(sc["seeks"])] % sc["n"])
                if i == sc.get("resize_at"):
                    # cached frames become unusable: later loops render again
                    it.set_render_size(Size(*sc["size2"]))
                try:
                    next(it)
                except StopIteration:
                    done = True
                    break
            if kind == "iter_full" or done:
                after_close_checks(it)
            elif kind in ("iter_close", "iter_seek"):
                it.close()
                after_close_checks(it)
            # iter_drop: nothing; the reference is dropped below
        elif kind == "iter_reentrant_close":
            # close() arrives while a frame is being rendered (from inside _render_, as a
            # callback or another thread would): it fails ("generator already executing");
            # the iterator must stay usable and a later close must still finalize
            it = RenderIterator(subj, None, ExactPadding(), sc["loops"], sc["cache"])
            box = {}

            def hook():
                if subj.calls == sc["steps"] % 3 + 1 and "done" not in box:
                    box["done"] = True
                    try:
                        it.close()
                        box["closed"] = True
                    except ValueError:
                        box["refused"] = True

            subj.on_render = hook
            for i in range(sc["steps"] + 2):
                try:
                    next(it)
                except StopIteration:
                    break
            if box.get("refused") and not box.get("closed"):
                try:
                    it.seek(0)
                except FinalizedIteratorError:
                    # half-closed: refuses control operations although next() still works
                    try:
                        next(it)
                        errs.append("after a refused close() the iterator refuses seek() but still yields frames")
                    except StopIteration:
                        pass
            it.close()
            after_close_checks(it)
        elif kind in ("from_data_own", "from_data_keep"):
            keep = kind == "from_data_keep"
            rd = subj._get_render_data_(iteration=True)
            if keep:
                kept.append(rd[S.Subj].token)
                kept_data.append(rd)
            it = RenderIterator._from_render_data_(subj, rd, None, ExactPadding(), sc["loops"], sc["cache"], finalize=not keep)
            del rd
            for i in range(sc["steps"]):
                try:
                    next(it)
                except StopIteration:
                    break
            it.close()
            after_close_checks(it)
        elif kind == "ctor_fails":
            # the iterator cannot even be set up (a frame cache that cannot be allocated, after
            # the size was validated and the render data created): there is no iterator to close, so whatever was created for it must
            # be finalized when the failure reaches the caller
            from term_image.padding import ExactPadding as _EP

            class Refusing(_EP):
                def _get_exact_dimensions_(self, render_size):
                    raise ValueError("the render does not fit this box")

            how = "cache"
            try:
                big = type(subj)(2**63, 1, sc["size"], "text")
                RenderIterator(big, None, _EP(), sc["loops"], True)
                errs.append("an iterator that cannot be set up was constructed (%s)" % how)
            except (ValueError, OverflowError, MemoryError) as e:
                for tok, rd_ in zip(S.created, S.held):
                    if not rd_.finalized:
                        errs.append("render data #%d not finalized when the failed construction (%s: %s) reached the caller; only the garbage collector would do it" % (S.created.index(tok), how, type(e).__name__))
                rd_ = None
        elif kind == "from_data_setup_fails":
            # an iterator over handed-in data cannot be set up (a padding that refuses the
            # render size, a frame cache that cannot be allocated): data the caller keeps
            # (finalize=False) is left alone, data given away is finalized -- there is no
            # iterator to close
            from term_image.padding import ExactPadding as _EP

            class Refusing(_EP):
                def _get_exact_dimensions_(self, render_size):
                    raise ValueError("the render does not fit this box")

            keep = sc.get("setup_keep", True)
            how = sc.get("setup_fault", "padding")
            owner = subj if how == "padding" else type(subj)(2**63, 1, sc["size"], "text")
            rd = owner._get_render_data_(iteration=True)
            if keep:
                kept.append(rd[S.Subj].token)
                kept_data.append(rd)
            try:
                RenderIterator._from_render_data_(owner, rd, None, Refusing() if how == "padding" else _EP(), sc["loops"], True if how == "cache" else sc["cache"], finalize=not keep)
                errs.append("an iterator that cannot be set up was constructed from handed-in data (%s)" % how)
            except (ValueError, OverflowError, MemoryError) as e:
                res.count("failed set-ups over handed-in data (%s, %s)" % (how, "kept" if keep else "given away"))
                if not keep and not rd.finalized:
                    errs.append("handed-over render data (finalize=True) not finalized when the failed construction (%s: %s) reached the caller" % (how, type(e).__name__))
            del rd
        elif kind == "from_data_reuse":
            # data that has been finalized (its owning iterator ended, one way or another)
            # is offered to a second iterator: to be refused, whoever would own it -- no
            # frame is ever rendered with it
            rd = subj._get_render_data_(iteration=True)
            it = RenderIterator._from_render_data_(subj, rd, None, ExactPadding(), sc["loops"], sc["cache"], finalize=True)
            for i in range(sc["steps"]):
                try:
                    next(it)
                except StopIteration:
                    break
            it.close()
            try:
                it2 = RenderIterator._from_render_data_(subj, rd, None, ExactPadding(), 1, False, finalize=sc.get("reuse_owns", False))
            except ValueError:
                pass
            else:
                try:
                    for _ in it2:
                        pass
                finally:
                    it2.close()
                errs.append("finalized render data was accepted by _from_render_data_(finalize=%r)" % sc.get("reuse_owns", False))
            del rd
        elif kind == "two_iters":
            # two iterators alive at the same time, created in different ways and with
            # different ownership of their data; ended in either order.  What one of them
            # does with its data must not depend on the other.
            for mode in sc["modes"]:
                if mode in ("keep", "own"):
                    rd = subj._get_render_data_(iteration=True)
                    if mode == "keep":
                        kept.append(rd[S.Subj].token)
                        kept_data.append(rd)
                    its.append(RenderIterator._from_render_data_(subj, rd, None, ExactPadding(), sc["loops"], sc["cache"], finalize=mode == "own"))
                    del rd
                elif mode == "ctor":
                    its.append(RenderIterator(subj, None, ExactPadding(), sc["loops"], sc["cache"]))
                else:  # a complete animated draw in between (it builds its own iterator)
                    subj.draw(loops=1, cache=False)
            for rnd_i in range(sc["steps"]):
                for it in its:
                    try:
                        next(it)
                    except StopIteration:
                        pass
            for idx in sc["end_order"]:
                if idx < len(its):
                    it = its[idx]
                    it.close()
                    after_close_checks(it)
            for it in its:
                it.close()
            it = None
        else:
            raise AssertionError(kind)
    except KeyboardInterrupt:
        outcome = "KeyboardInterrupt"
    except Exception as e:
        outcome = type(e).__name__
        for other in its:
            # the iterators that did not fail are still open; their owner ends them
            if other is not it:
                try:
                    other.close()
                except Exception as e2:
                    errs.append("close() of an iterator that had not failed raised %s" % type(e2).__name__)
        if it is not None and kind != "iter_drop":
            # "after ... an error the iterator is closed"
            try:
                after_close_checks(it)
            except Exception as e2:
                errs.append("after-error checks raised %s" % type(e2).__name__)
    calls = subj.calls
    # (a failure while the data object is still being filled -- _get_render_size_ -- leaves an
    # object nobody ever received; there the collector's finalization is what the property's
    # "garbage-collected" clause covers, so only "exactly once after collection" is asserted.
    # A failing size *validation* happens after the data exists: the operation has failed and
    # the data must be finalized by then.)
    if hold and outcome != "KeyboardInterrupt" and not (fault and fault[0] == "size"):
        for rd_ in S.held:
            try:
                tok = rd_[S.Subj].token
            except AttributeError:
                continue  # creation itself failed
            if not rd_.finalized and tok not in kept:
                errs.append("render data #%d not finalized when the operation completed (outcome %s); only the garbage collector would do it" % (S.created.index(tok), outcome))
    del S.held[:]
    S.hold_refs = False
    rd_ = None
    it = other = None
    del its[:]
    # the injected exception object (and through its traceback the frames of the failed
    # operation) must not be kept alive by the harness
    subj.fail_at = subj.size_fail = None
    pad_obj = pad_exc = None
    # caller-owned data must still be alive and un-finalized; then the caller finalizes it
    for rd in kept_data:
        if rd.finalized:
            errs.append("caller-owned render data (finalize=False) was finalized by the library")
        rd.finalize()
        rd.finalize()  # idempotent
    kept_data = None
    rd = None
    gc.collect()
    fin = {}
    for t in S.finalized:
        fin[t] = fin.get(t, 0) + 1
    for t in S.created:
        c = fin.get(t, 0)
        res.count("render-data tokens audited")
        if c != 1:
            errs.append("render data #%d finalized %d times (outcome %s)" % (S.created.index(t), c, outcome))
    if sc.get("deep"):
        for t in S.created:
            c = S.SubjDeep.deep_finalized.count(t)
            if c != 1:
                errs.append("render data #%d: the finalizer hook of its (sub)class ran %d times (outcome %s)" % (S.created.index(t), c, outcome))
    if S.used_after_finalize:
        errs.append("a frame was rendered with already-finalized render data")
    if not S.created and not (fault and fault[0] in ("size", "bad-args")):
        errs.append("no render data was created?")
    env.set_winsize(40, 20)
    return ("; ".join(errs) if errs else None), calls, outcome


def gen_scenario(rnd):
    kind = rnd.choice(["str", "render", "draw_still", "draw_anim", "draw_anim", "iter_dunder", "iter_full", "iter_close", "iter_drop", "iter_seek", "from_data_own", "from_data_keep", "from_data_reuse", "from_data_setup_fails", "ctor_fails", "iter_reentrant_close", "two_iters", "two_iters"])
    sc = dict(kind=kind, size=[rnd.randint(1, 4), rnd.randint(1, 3)], loops=rnd.choice([1, 2, 3]), cache=rnd.choice([False, True, 2, 100]), steps=rnd.randint(0, 8), seeks=[rnd.randint(0, 5) for _ in range(4)])
    if kind in ("str", "render", "draw_still") and rnd.random() < 0.5:
        sc["n"] = 1
    elif rnd.random() < 0.25 and kind not in ("str", "render", "draw_still", "iter_reentrant_close"):
        sc["indef_len"] = rnd.randint(0, 5)
        sc["n"] = None
    else:
        sc["n"] = rnd.randint(2, 5)
    if kind == "draw_still":
        sc["check"] = rnd.random() < 0.8
    if kind in ("iter_full", "iter_close", "iter_seek", "iter_drop") and rnd.random() < 0.5:
        sc["resize_at"] = rnd.randint(1, 9)
        sc["size2"] = [rnd.randint(1, 4), rnd.randint(1, 3)]
    if rnd.random() < 0.25:
        sc["in_handler"] = True
    if rnd.random() < 0.3:
        sc["deep"] = True
    if kind == "from_data_reuse":
        sc["reuse_owns"] = rnd.random() < 0.5
    if kind == "from_data_setup_fails":
        sc["setup_keep"] = rnd.random() < 0.6
        sc["setup_fault"] = rnd.choice(["padding", "cache"])
        sc.pop("indef_len", None)
        sc["n"] = sc["n"] or 3
    if kind == "two_iters":
        sc["modes"] = [rnd.choice(["keep", "own", "ctor", "draw"]) for _ in range(rnd.randint(2, 3))]
        sc["end_order"] = rnd.sample(range(3), 3)
        sc.pop("indef_len", None)
        sc["n"] = sc["n"] or rnd.randint(2, 5)
    return sc


def run_shard(shard, env):
    res = Result(shard)
    try:
        if "replay" in shard:
            c = shard["replay"]
            msg, calls, outcome = run_scenario(c["sc"], tuple(c["fault"]) if c["fault"] else None, env, res)
            res.case(str(c))
            if msg:
                res.violation("C10:replay", msg, c)
            return res.as_dict()
        rnd = random.Random("%s/c10/%s" % (shard["seed"], shard["index"]))
        for _ in range(shard["scen"]):
            sc = gen_scenario(rnd)
            msg, K, outcome = run_scenario(sc, None, env, res)
            res.count("fault-free profiles")
            res.case((sc, None))
            faults = [(k, e) for k in range(1, K + 1) for e in EXCS] + [("size", "RuntimeError"), ("size", "AttributeError"), ("too-small",)]
            if sc["kind"] in ("render", "draw_still", "draw_anim", "iter_full", "iter_close", "iter_drop", "iter_seek"):
                faults.append(("bad-args",))
            if sc["kind"] in ("iter_full", "iter_close", "iter_seek"):
                faults += [("pad", k, e) for k in range(1, min(K, 5) + 1) for e in ("RuntimeError", "RenderError")]
            if msg:
                res.violation("C10:fault-free:" + sc["kind"], msg + " [%s]" % sc, dict(sc=sc, fault=None))
            for fault in faults:
                try:
                    msg, _, outcome = run_scenario(sc, fault, env, res)
                except Exception:
                    msg = "harness exception " + traceback.format_exc()[-800:]
                    outcome = "?"
                res.count("fault runs")
                res.count("outcome " + outcome)
                res.case((sc, fault))
                if msg:
                    res.violation("C10:%s:%s" % (sc["kind"], fault[0] if isinstance(fault[0], str) else fault[1]), msg + " [scenario %s fault %s]" % (sc, fault), dict(sc=sc, fault=list(fault)))
            if len(res.samples) < 2:
                res.sample(dict(scenario=sc, render_calls=K, faults=len(faults)))
            if res.too_many():
                break
    except Exception:
        res.inconclusive.append(traceback.format_exc()[-2000:])
    return res.as_dict()
