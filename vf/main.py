"""Runner: ``python -m vf.main <ID> --tier quick|thorough [--replay FILE]``.

Plans shards, runs each in its own worker subprocess (``vf.worker``) on up to 16 cores,
merges the observations, classifies violations against ``known_findings.json``, writes
``evidence/<ID>.json`` and a replay file per violation.  See DESIGN.md 2.6.
"""

from __future__ import annotations

import argparse
import hashlib
import importlib
import json
import os
import shutil
import subprocess
import sys
import tempfile
import time
from collections import Counter
from concurrent.futures import ThreadPoolExecutor

ROOT = os.path.dirname(os.path.dirname(os.path.abspath(__file__)))
PY = "/venv/bin/python"


def repo_path():
    return os.environ.get("VERIF_REPO", "/repo")


def load_known():
    path = os.path.join(ROOT, "known_findings.json")
    try:
        with open(path) as f:
            data = json.load(f)
    except FileNotFoundError:
        return {}
    return {e["key"]: e for e in data.get("known", [])}


def worker_env():
    env = dict(os.environ)
    env["PYTHONHASHSEED"] = "0"
    env["PYTHONPATH"] = os.pathsep.join(
        [os.path.join(repo_path(), "src"), ROOT]
    )
    env["PYTHONDONTWRITEBYTECODE"] = "1"
    env["TERM"] = "xterm-256color"
    env["COLORTERM"] = "truecolor"
    env.pop("TERM_PROGRAM", None)
    env.pop("TERM_PROGRAM_VERSION", None)
    env["TERM_IMAGE_VERIF"] = "1"
    env["VERIF_ROOT"] = ROOT
    env["VERIF_REPO"] = repo_path()
    return env


def run_shard(mod_name, shard, workdir, idx, timeout):
    inp = os.path.join(workdir, "shard-%d.in.json" % idx)
    out = os.path.join(workdir, "shard-%d.out.json" % idx)
    with open(inp, "w") as f:
        json.dump(shard, f)
    cmd = [PY, "-B", "-X", "faulthandler", "-m", "vf.worker", mod_name, inp, out]
    t0 = time.time()
    p_pid = [0]
    try:
        proc = subprocess.Popen(
            cmd,
            cwd=ROOT,
            # (temporary files of the workers, of the library in them and of their child
            # processes live -- and die -- with this run's scratch directory)
            env=dict(worker_env(), TMPDIR=workdir),
            stdin=subprocess.DEVNULL,
            stdout=subprocess.PIPE,
            stderr=subprocess.PIPE,
            start_new_session=True,
        )
        p_pid[0] = proc.pid
        try:
            out_b, err_b = proc.communicate(timeout=timeout)
        except subprocess.TimeoutExpired:
            try:
                os.killpg(proc.pid, 9)
            except Exception:
                proc.kill()
            out_b, err_b = proc.communicate()
            raise subprocess.TimeoutExpired(cmd, timeout, output=out_b, stderr=err_b)
        p = subprocess.CompletedProcess(cmd, proc.returncode, out_b, err_b)
    except subprocess.TimeoutExpired as e:
        # the whole process group of the worker (children started with multiprocessing)
        try:
            os.killpg(p_pid[0], 9)
        except Exception:
            pass
        tail = (e.stderr or b"").decode("utf-8", "replace")[-6000:]
        return {"inconclusive": ["shard %d: watchdog fired after %ds %s" % (idx, timeout, ("; stderr: " + tail) if os.environ.get("VERIF_DUMP_AFTER") else "")]}
    dt = time.time() - t0
    if not os.path.exists(out):
        return {
            "inconclusive": [
                "shard %d: worker died rc=%s: %s"
                % (idx, p.returncode, p.stderr.decode("utf-8", "replace")[-3000:])
            ]
        }
    with open(out) as f:
        res = json.load(f)
    res["_wall"] = dt
    if p.stderr.strip() and os.environ.get("VERIF_DEBUG"):
        sys.stderr.write(p.stderr.decode("utf-8", "replace")[-4000:])
    return res


def merge(results):
    tot = {
        "cases": 0,
        "counters": Counter(),
        "distinct": set(),
        "distinct_count_extra": 0,
        "violations": [],
        "inconclusive": [],
        "samples": [],
        "extra": {},
    }
    for r in results:
        tot["cases"] += r.get("cases", 0)
        for k, v in r.get("counters", {}).items():
            tot["counters"][k] += v
        tot["distinct"].update(r.get("distinct", ()))
        tot["distinct_count_extra"] += r.get("distinct_count", 0)
        tot["violations"].extend(r.get("violations", ()))
        tot["inconclusive"].extend(r.get("inconclusive", ()))
        for s in r.get("samples", ()):
            if len(tot["samples"]) < 8:
                tot["samples"].append(s)
        for k, v in r.get("extra", {}).items():
            if isinstance(v, list):
                tot["extra"].setdefault(k, [])
                tot["extra"][k].extend(v)
            elif isinstance(v, (int, float)):
                tot["extra"][k] = tot["extra"].get(k, 0) + v
            else:
                tot["extra"][k] = v
    return tot


def main(argv=None):
    ap = argparse.ArgumentParser()
    ap.add_argument("check")
    ap.add_argument("--tier", default=os.environ.get("VERIF_TIER", "quick"))
    ap.add_argument("--replay")
    ap.add_argument("--jobs", type=int, default=int(os.environ.get("VERIF_JOBS", "16")))
    args = ap.parse_args(argv)
    cid = args.check.upper()
    tier = args.tier
    seed = int(os.environ.get("VERIF_SEED", "0"))
    mod_name = "vf.checks." + cid.lower()
    sys.path.insert(0, ROOT)
    mod = importlib.import_module(mod_name)
    t0 = time.time()

    if not os.path.isdir(os.path.join(repo_path(), "src", "term_image")):
        print("INCONCLUSIVE property=%s no repository at %s" % (cid, repo_path()))
        return 2

    workdir = tempfile.mkdtemp(prefix="vf-%s-" % cid, dir=os.environ.get("VERIF_WORK") or None)
    try:
        if args.replay:
            with open(args.replay) as f:
                rep = json.load(f)
            shard = dict(rep["shard"])
            shard["replay"] = rep["case"]
            shards = [shard]
        else:
            shards = mod.plan(tier, seed)
        timeout = getattr(mod, "SHARD_TIMEOUT", {"quick": 600, "thorough": 3000})[tier]
        with ThreadPoolExecutor(max_workers=args.jobs) as ex:
            futs = [
                ex.submit(run_shard, mod_name, sh, workdir, i, timeout)
                for i, sh in enumerate(shards)
            ]
            results = [f.result() for f in futs]
    finally:
        shutil.rmtree(workdir, ignore_errors=True)

    tot = merge(results)
    if hasattr(mod, "finish"):
        mod.finish(tot, tier)  # cross-shard judgements (e.g. minimum-event thresholds)
    known = load_known()
    wall = time.time() - t0

    # classify
    real, known_hit = [], {}
    for v in tot["violations"]:
        k = v.get("key", "")
        if k in known and known[k].get("property") == cid:
            known_hit.setdefault(k, v)
        else:
            real.append(v)

    os.makedirs(os.path.join(ROOT, "replays"), exist_ok=True)
    os.makedirs(os.path.join(ROOT, "evidence"), exist_ok=True)

    distinct = len(tot["distinct"]) + tot["distinct_count_extra"]
    min_events = getattr(mod, "MIN_EVENTS", {})
    for name, need in ({} if args.replay else min_events).items():
        need = need[tier] if isinstance(need, dict) else need
        if tot["counters"].get(name, 0) < need:
            tot["inconclusive"].append(
                "monitor counter %r = %d < %d: the deciding monitor was (almost) never reached"
                % (name, tot["counters"].get(name, 0), need)
            )
    if not args.replay and (tot["cases"] < 1 or distinct < 2):
        tot["inconclusive"].append("too few cases: %d (%d distinct)" % (tot["cases"], distinct))

    coverage = {
        "evaluations": tot["cases"],
        "distinct_nontrivial": distinct,
        "rule": getattr(mod, "RULE", ""),
        "samples": tot["samples"] or [{"note": "no sample recorded"}],
        "counters": dict(sorted(tot["counters"].items())),
        "exhaustive": bool(getattr(mod, "EXHAUSTIVE", {}).get(tier, False))
        if isinstance(getattr(mod, "EXHAUSTIVE", None), dict)
        else False,
        "shards": len(shards),
        "known_findings_hit": sorted(known_hit),
        "inconclusive": tot["inconclusive"][:10],
    }
    if getattr(mod, "EXHAUSTIVE_NOTE", None):
        coverage["exhaustive_note"] = mod.EXHAUSTIVE_NOTE
    coverage.update(tot["extra"])
    evidence = {
        "property_id": cid,
        "tier": tier,
        "seed": seed,
        "level": mod.LEVEL,
        "coverage": coverage,
        "assumptions": list(getattr(mod, "ASSUMPTIONS", [])),
        "wall_s": round(wall, 2),
        "violations": len(real),
        "repo": repo_path(),
    }
    if not args.replay:
        with open(os.path.join(ROOT, "evidence", cid + ".json"), "w") as f:
            json.dump(evidence, f, indent=1, sort_keys=True, default=str)
            f.write("\n")

    print(
        "%s %s seed=%d: %d cases, %d distinct non-trivial, %d shards, %.1fs"
        % (cid, tier, seed, tot["cases"], distinct, len(shards), wall)
    )
    for k, v in sorted(tot["counters"].items()):
        print("  %-40s %d" % (k, v))
    for k, v in known_hit.items():
        print("KNOWN-FINDING: property=%s %s -- %s" % (cid, k, known[k].get("what", "")))
    rc = 0
    if real:
        seen = set()
        for v in real:
            k = v.get("key", "")
            if k in seen and len(seen) > 0:
                continue
            seen.add(k)
            if len(seen) > 12:
                break
            blob = json.dumps(v.get("case"), sort_keys=True, default=str)
            dig = hashlib.sha1((k + blob).encode()).hexdigest()[:12]
            path = os.path.join(ROOT, "replays", "%s-%s.json" % (cid, dig))
            with open(path, "w") as f:
                json.dump(
                    {"check": cid, "key": k, "msg": v.get("msg"), "shard": v.get("shard", {}), "case": v.get("case")},
                    f,
                    indent=1,
                    default=str,
                )
            print("  violation[%s]: %s" % (k, str(v.get("msg"))[:600]))
            print("VIOLATION property=%s replay=%s" % (cid, path))
        print("%d violating cases in total" % len(real))
        rc = 1
    elif tot["inconclusive"]:
        for m in tot["inconclusive"][:10]:
            print("INCONCLUSIVE property=%s %s" % (cid, m[:1500]))
        rc = 2
    else:
        print("HELD property=%s on everything explored" % cid)
    return rc


if __name__ == "__main__":
    sys.exit(main())
