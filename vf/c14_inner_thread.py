"""A single-threaded program in which a synchronized function starts a worker thread that
makes synchronized calls of its own (a query helper spawning a reader, a draw starting a
resize watcher): the worker's calls wait until the outer call has returned.

Run as ``python -m vf.c14_inner_thread``; prints one JSON line:
{"threads_at_entry": n, "outer": [t0, t1], "inner": [[t0, t1], ...]} (monotonic ns)."""
import json
import sys
import threading
import time


def main():
    from term_image import utils

    inner = []
    started = []

    @utils.lock_tty
    def probe():
        t0 = time.monotonic_ns()
        time.sleep(0.01)
        inner.append([t0, time.monotonic_ns()])

    def worker():
        for _ in range(3):
            probe()

    @utils.lock_tty
    def outer():
        t0 = time.monotonic_ns()
        n = threading.active_count()
        t = threading.Thread(target=worker, daemon=True)
        t.start()
        started.append(t)
        time.sleep(0.15)  # (never joins the worker: with a correct lock that would deadlock)
        return n, [t0, time.monotonic_ns()]

    n, span = outer()
    started[0].join(20)
    # re-entrancy within the outer call's own thread still works
    @utils.lock_tty
    def nested():
        probe()
        return True

    ok = nested()
    print(json.dumps({"threads_at_entry": n, "outer": span, "inner": inner, "nested": ok, "alive": started[0].is_alive()}))


if __name__ == "__main__":
    sys.exit(main())
