"""Shared helpers for check modules: result accumulation, seeded generators, library
set-up through public API, image generators."""

from __future__ import annotations

import hashlib
import json
import random
import time
from collections import Counter


class Result:
    """Accumulates what a shard observed."""

    def __init__(self, shard, max_violations=40, max_samples=3):
        self.shard = shard
        self.cases = 0
        self.counters = Counter()
        self.distinct = set()
        self.violations = []
        self.inconclusive = []
        self.samples = []
        self.extra = {}
        self.max_violations = max_violations
        self.max_samples = max_samples
        self.t0 = time.time()

    def case(self, key=None, nontrivial=True):
        self.cases += 1
        if key is not None and nontrivial:
            if not isinstance(key, str):
                key = json.dumps(key, sort_keys=True, default=str)
            self.distinct.add(hashlib.blake2b(key.encode(), digest_size=6).hexdigest())

    def count(self, name, n=1):
        self.counters[name] += n

    def sample(self, obj):
        if len(self.samples) < self.max_samples:
            self.samples.append(obj)

    def violation(self, key, msg, case):
        self.counters["violations:" + key] += 1
        if len(self.violations) < self.max_violations or not any(
            v["key"] == key for v in self.violations
        ):
            self.violations.append({"key": key, "msg": msg, "case": case})

    def too_many(self):
        return len(self.violations) >= self.max_violations

    def as_dict(self):
        return {
            "cases": self.cases,
            "counters": dict(self.counters),
            "distinct": sorted(self.distinct),
            "violations": self.violations,
            "inconclusive": self.inconclusive,
            "samples": self.samples,
            "extra": self.extra,
        }


def shard_rng(shard):
    return random.Random("%s/%s" % (shard.get("seed", 0), shard.get("index", 0)))


def split_plan(n_shards, seed, **common):
    return [dict(common, index=i, n=n_shards, seed=seed) for i in range(n_shards)]


# ----------------------------------------------------------------------------- images

MODES = ["1", "L", "LA", "P", "PA", "RGB", "RGBA", "CMYK", "HSV"]


def rand_pixels(rnd, w, h, kind=None):
    """List of RGBA tuples with run structure aimed at run-length encoders."""
    kind = kind or rnd.choice(["noise", "runs", "uniform", "stripes", "alpha-edge"])
    n = w * h
    pal = [
        (rnd.randrange(256), rnd.randrange(256), rnd.randrange(256)) for _ in range(rnd.randint(1, 4))
    ] + [(0, 0, 0), (255, 255, 255)]
    alphas = [0, 255, 255, 39, 40, 41, 127, 128, 254, 1]
    if kind == "uniform":
        c = rnd.choice(pal) + (rnd.choice(alphas),)
        return [c] * n
    if kind == "noise":
        return [
            (rnd.randrange(256), rnd.randrange(256), rnd.randrange(256), rnd.choice(alphas))
            for _ in range(n)
        ]
    if kind == "stripes":
        out = []
        for y in range(h):
            c = rnd.choice(pal) + (rnd.choice(alphas),)
            out.extend([c] * w)
        return out
    if kind == "alpha-edge":
        out = []
        for y in range(h):
            for x in range(w):
                edge = x in (0, w - 1) or y in (0, h - 1)
                out.append(rnd.choice(pal) + ((0 if edge else 255),))
        return out
    out = []
    cur = rnd.choice(pal) + (rnd.choice(alphas),)
    for i in range(n):
        if rnd.random() < 0.3:
            col = rnd.choice(pal) if rnd.random() < 0.6 else cur[:3]
            a = rnd.choice(alphas) if rnd.random() < 0.6 else cur[3]
            cur = col + (a,)
        out.append(cur)
    return out


def make_image(rnd, w, h, mode=None, kind=None):
    from PIL import Image

    mode = mode or rnd.choice(MODES)
    im = Image.new("RGBA", (w, h))
    im.putdata(rand_pixels(rnd, w, h, kind))
    if mode == "RGBA":
        return im
    if mode == "PA":
        p = im.convert("P")
        p = p.convert("PA")
        p.putalpha(im.getchannel("A"))
        return p
    if mode == "LA":
        return im.convert("LA")
    if mode == "P":
        # keep some transparency information in the palette image
        p = im.convert("RGB").convert("P", palette=Image.Palette.ADAPTIVE, colors=8)
        if rnd.random() < 0.5:
            p.info["transparency"] = rnd.randrange(8)
        return p
    return im.convert("RGB").convert(mode) if mode in ("1", "L", "CMYK", "HSV") else im.convert(mode)


def make_anim_file(rnd, path, w, h, n_frames, fmt="GIF", durations=None):
    from PIL import Image

    frames = []
    for i in range(n_frames):
        im = Image.new("RGB", (w, h))
        im.putdata(
            [
                ((37 * i + 11 * x) % 256, (91 * i + 7 * y) % 256, (i * 53 + x * y) % 256)
                for y in range(h)
                for x in range(w)
            ]
        )
        frames.append(im)
    kw = {}
    if fmt == "GIF":
        frames = [f.convert("P", palette=Image.Palette.ADAPTIVE) for f in frames]
    frames[0].save(
        path,
        format=fmt,
        save_all=True,
        append_images=frames[1:],
        duration=durations or 100,
        loop=0,
        **({"lossless": True} if fmt == "WEBP" else {}),
    )
    return path
