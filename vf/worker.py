"""Worker process: ``python -m vf.worker <module> <shard.in.json> <shard.out.json>``.

Sets up the pty environment *before* the library is imported (when the check asks for
one), runs the shard and writes the observations as JSON.
"""

from __future__ import annotations

import faulthandler
import importlib
import json
import os
import sys
import traceback


def main():
    mod_name, inp, out = sys.argv[1:4]
    with open(inp) as f:
        shard = json.load(f)
    faulthandler.enable()
    if os.environ.get("VERIF_DUMP_AFTER"):
        faulthandler.dump_traceback_later(float(os.environ["VERIF_DUMP_AFTER"]), exit=False)
    mod = importlib.import_module(mod_name)
    env = None
    if getattr(mod, "NEEDS_PTY", True):
        from vf.env import PERSONAS, Persona, PtyEnv

        pname = shard.get("persona", "other")
        kw = dict(PERSONAS[pname])
        kw.update(shard.get("persona_kw", {}))
        env = PtyEnv.install(Persona(**kw), *shard.get("winsize", (80, 24, 0, 0)))
        env.persona_name = pname
        # diagnostics to the real stderr, not to the terminal under test
        faulthandler.enable(file=sys.stderr)
        if os.environ.get("VERIF_DUMP_AFTER"):
            faulthandler.cancel_dump_traceback_later()
            faulthandler.dump_traceback_later(float(os.environ["VERIF_DUMP_AFTER"]), exit=False, file=sys.stderr)
    import warnings

    warnings.simplefilter("ignore")
    try:
        res = mod.run_shard(shard, env) if env is not None else mod.run_shard(shard, None)
    except BaseException:
        res = {
            "inconclusive": [
                "worker crashed in shard %s: %s"
                % (json.dumps(shard)[:200], traceback.format_exc()[-3000:])
            ]
        }
    for v in res.get("violations", ()):
        v.setdefault("shard", {k: v2 for k, v2 in shard.items() if k != "replay"})
    tmp = out + ".tmp"
    with open(tmp, "w") as f:
        json.dump(res, f, default=str)
    os.replace(tmp, out)
    # do not run interpreter-exit finalizers against a terminal nobody serves anymore
    sys.stdout = sys.__stdout__ = open(os.devnull, "w")
    import atexit

    try:
        atexit._run_exitfuncs()  # e.g. the library's temp-dir clean-up
    finally:
        os._exit(0)


if __name__ == "__main__":
    main()
