"""Tiny loopback HTTP server run as a separate process (so that its sockets do not show
up in the open-file census of the process under observation).
usage: python -m vf.httpd <root>   -> prints the port on stdout, serves until killed.
/img/<name> serves <root>/<name>; /text serves a non-image body; anything else 404."""
import http.server
import os
import sys


def main():
    root = sys.argv[1]

    class H(http.server.BaseHTTPRequestHandler):
        def do_GET(self):
            if self.path.startswith("/img/"):
                p = os.path.join(root, os.path.basename(self.path))
                try:
                    with open(p, "rb") as f:
                        data = f.read()
                except OSError:
                    self.send_error(404)
                    return
            elif self.path.startswith("/text"):
                data = b"this is not an image at all"
            else:
                self.send_error(404)
                return
            self.send_response(200)
            self.send_header("Content-Length", str(len(data)))
            self.end_headers()
            self.wfile.write(data)

        def log_message(self, *a):
            pass

    httpd = http.server.ThreadingHTTPServer(("127.0.0.1", 0), H)
    sys.stdout.write("%d\n" % httpd.server_address[1])
    sys.stdout.flush()
    httpd.serve_forever()


if __name__ == "__main__":
    main()
