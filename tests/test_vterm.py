"""Hand-written escape-sequence cases for the reference terminal (independent of the
library under test)."""
import base64
import unittest
import zlib

from vf.vterm import BLANK, SENT, VTerm, halves


class T(unittest.TestCase):
    def test_print_and_wrap(self):
        v = VTerm(3, 4)
        v.feed("abcd")
        self.assertEqual((v.r, v.c, v.pw), (0, 3, True))
        self.assertEqual(v.autowraps, 0)
        v.feed("e")
        self.assertEqual((v.r, v.c), (1, 1))
        self.assertEqual(v.autowraps, 1)
        self.assertEqual(v.grid[1][0][0], "e")

    def test_lf_clears_pending_wrap_and_scroll(self):
        v = VTerm(2, 3)
        v.feed("abc\nxy\nz")
        self.assertEqual(v.autowraps, 0)
        self.assertEqual(v.scrolls, 1)
        self.assertEqual([c[0] for c in v.grid[0]][:2], ["x", "y"])
        self.assertEqual(v.grid[1][0][0], "z")

    def test_cooked_vs_raw_newline(self):
        v = VTerm(3, 5, cooked=False)
        v.feed("ab\ncd")
        self.assertEqual(v.grid[1][2][0], "c")
        v = VTerm(3, 5, cooked=True)
        v.feed("ab\ncd")
        self.assertEqual(v.grid[1][0][0], "c")
        v = VTerm(3, 6, cooked=True, margin=2)
        v.c = 2
        v.feed("ab\ncd")
        self.assertEqual(v.grid[1][2][0], "c")

    def test_csi_zero_means_one_and_clamp(self):
        v = VTerm(5, 5)
        v.r, v.c = 2, 2
        v.feed("\x1b[0A")
        self.assertEqual(v.r, 1)
        v.feed("\x1b[9A\x1b[9D")
        self.assertEqual((v.r, v.c), (0, 0))
        v.feed("\x1b[99B\x1b[99C")
        self.assertEqual((v.r, v.c), (4, 4))
        v.feed("\x1b[C")
        self.assertEqual(v.c, 4)

    def test_ech_clamped_and_bce(self):
        v = VTerm(1, 5)
        v.feed("\x1b[48;2;1;2;3m\x1b[2C\x1b[9X")
        self.assertEqual(v.grid[0][1], SENT)
        self.assertEqual(v.grid[0][2], (" ", None, (1, 2, 3)))
        self.assertEqual(v.grid[0][4], (" ", None, (1, 2, 3)))
        self.assertEqual(v.c, 2)

    def test_sgr(self):
        v = VTerm(1, 5)
        v.feed("\x1b[38;2;1;2;3m\x1b[48;2;4;5;6mA\x1b[mB\x1b[1mC\x1b[0m")
        self.assertEqual(v.grid[0][0], ("A", (1, 2, 3), (4, 5, 6)))
        self.assertEqual(v.grid[0][1], ("B", None, None))
        self.assertEqual(v.grid[0][2], ("C", None, None, "A"))
        self.assertTrue(v.sgr_default())
        v.feed("\x1b[38:2::7:8:9m")
        self.assertEqual(v.fg, (7, 8, 9))
        v.feed("\x1b[39;49m")
        self.assertTrue(v.sgr_default())

    def test_c0_inside_csi_and_esc_abort(self):
        v = VTerm(2, 8)
        v.feed("ab\x1b[\b1C")  # BS executed inside the CSI, then CUF 1
        self.assertEqual(v.c, 2)
        v.feed("\x1b[3\x1b[1D")  # first CSI aborted by ESC
        self.assertEqual(v.c, 1)
        self.assertEqual(len(v.aborted), 1)

    def test_unterminated_apc_swallows(self):
        v = VTerm(2, 8)
        v.feed("\x1b_Ga=T,f=24;AAAA")
        v.feed("hello")
        self.assertFalse(v.ground())
        self.assertEqual(v.grid[0][0], SENT)
        v.feed("\x1b\\X")
        self.assertEqual(v.grid[0][0][0], "X")

    def test_cursor_visibility_and_sync(self):
        v = VTerm(2, 2)
        v.feed("\x1b[?25l")
        self.assertFalse(v.visible)
        v.feed("\x1b[?25h\x1b[?2026ha\x1b[?2026lb")
        self.assertTrue(v.visible)
        self.assertEqual((v.sync_begins, v.sync_ends), (1, 1))
        self.assertEqual(v.outside_sync, 1)

    def kitty(self, keys, data):
        return "\x1b_G%s;%s\x1b\\" % (keys, base64.b64encode(data).decode())

    def test_kitty_place_delete(self):
        v = VTerm(6, 10, "kitty")
        v.r, v.c = 1, 2
        v.feed(self.kitty("a=T,f=24,s=1,v=1,c=3,r=2,C=1,z=5", b"abc"))
        self.assertEqual((v.r, v.c), (1, 2))
        self.assertEqual(len(v.placements), 1)
        self.assertIn((2, 4), v.touched)
        v.feed(self.kitty("a=T,f=24,s=1,v=1,c=3,r=2,C=1,z=5", b"abc"))
        self.assertEqual(len(v.placements), 2)  # kitty stacks
        v.feed("\x1b_Ga=d,d=Z,z=4;\x1b\\")
        self.assertEqual(len(v.placements), 2)
        v.feed("\x1b_Ga=d,d=Z,z=5;\x1b\\")
        self.assertEqual(len(v.placements), 0)
        k = VTerm(6, 10, "konsole")
        k.feed(self.kitty("a=T,f=24,s=1,v=1,c=3,r=2,C=1,z=5", b"abc") * 2)
        self.assertEqual(len(k.placements), 1)  # konsole replaces
        k.r, k.c = 1, 1
        k.feed("\x1b_Ga=d,d=C;\x1b\\")
        self.assertEqual(len(k.placements), 0)

    def test_kitty_chunks_and_zlib(self):
        raw = bytes(range(256)) * 36  # 64 x 48 pixels of 3 bytes
        b64 = base64.b64encode(zlib.compress(raw)).decode()
        a, b = b64[:4096], b64[4096:]
        v = VTerm(4, 4, "kitty", keep_payload=True)
        v.feed("\x1b_Ga=T,f=24,s=64,v=48,o=z,c=1,r=1,C=1,m=1;%s\x1b\\" % a)
        self.assertFalse(v.ground())
        self.assertEqual(len(v.placements), 0)
        v.feed("\x1b_Gm=0;%s\x1b\\" % b)
        self.assertTrue(v.ground())
        self.assertEqual(len(v.placements), 1)
        self.assertEqual(v.placements[0].payload, b64)
        # interrupted chunked transmission then the library's terminator
        v.feed("\x1b_Ga=T,f=24,c=1,r=1,C=1,m=1;AAAA\x1b\\")
        v.feed("\x1b\\\x1b\\\x1b_Gq=1,m=0;\x1b\\")
        self.assertTrue(v.ground())

    def test_iterm2_cursor_policy(self):
        png = base64.b64encode(b"x" * 10).decode()
        seq = "\x1b]1337;File=size=10;width=3;height=2;preserveAspectRatio=0;inline=1:%s\x1b\\" % png
        v = VTerm(5, 8, "iterm2")
        v.r, v.c = 1, 1
        v.feed(seq)
        self.assertEqual((v.r, v.c), (2, 4))
        self.assertEqual(v.grid[2][3][0], "\x00img")
        v = VTerm(3, 8, "iterm2")
        v.r = 2
        v.feed(seq)  # does not fit below: scrolls
        self.assertEqual(v.scrolls, 1)
        self.assertEqual((v.r, v.c), (2, 3))
        k = VTerm(5, 8, "konsole")
        k.feed(seq.replace("inline=1", "inline=1;doNotMoveCursor=1"))
        self.assertEqual((k.r, k.c), (0, 0))
        self.assertEqual(len(k.placements), 1)
        v = VTerm(2, 3, "wezterm")
        v.feed(seq.replace("height=2", "height=1"))
        self.assertEqual((v.c, v.pw), (2, True))

    def test_cup_el_ed(self):
        v = VTerm(3, 4, fill=BLANK)
        v.feed("abcd\x1b[2;2Hxy\x1b[1;2H\x1b[K")
        self.assertEqual([c[0] for c in v.grid[0]], ["a", " ", " ", " "])
        self.assertEqual(v.grid[1][1][0], "x")
        v.feed("\x1b[2J")
        self.assertTrue(all(c[0] == " " for row in v.grid for c in row))

    def test_halves(self):
        self.assertEqual(halves((" ", (1, 1, 1), (2, 2, 2))), ((2, 2, 2), (2, 2, 2)))
        self.assertEqual(halves(("▀", (1, 1, 1), None)), ((1, 1, 1), None))
        self.assertEqual(halves(("▄", (1, 1, 1), (3, 3, 3))), ((3, 3, 3), (1, 1, 1)))
        self.assertEqual(halves((" ", None, (0, 0, 0)), kitty_bg=(0, 0, 0)), (None, None))

    def test_osc_bel_and_unknown(self):
        v = VTerm(1, 4)
        v.feed("\x1b]0;title\x07a\x1b[5ib")
        self.assertEqual(v.grid[0][0][0], "a")
        self.assertEqual(v.unknown, ["CSI 5i"])


    def test_command_interleaved_in_chunked_transmission(self):
        from vf.vterm import VTerm

        t = VTerm(6, 12, "kitty")
        t.feed("\x1b_Ga=T,f=24,s=1,v=1,c=1,r=1,m=1;AAAA\x1b\\")
        self.assertIsNotNone(t.pending)
        t.feed("\x1b_Ga=d,d=C;\x1b\\")
        self.assertIsNone(t.pending)
        self.assertTrue(any("interrupted" in a for a in t.aborted))


if __name__ == "__main__":
    unittest.main()
