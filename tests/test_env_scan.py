"""The scripted terminal must recognise queries / sync markers however the byte stream
is split between reads."""
import unittest

from vf.env import Persona, PtyEnv


class T(unittest.TestCase):
    def test_marker_split_everywhere(self):
        env = PtyEnv(Persona(), 20, 5)
        env._stop = True  # the thread is not needed: feed _on_output directly
        env.thread.join(2)
        payload = b"abc\x1b[38;2;1;2;3mX\x1b_Ga=T,f=24;AAAA\x1b\\tail"
        marker = b"\x1b_VFSYNC%d\x1b\\"
        n = 100
        for cut in range(1, len(payload) + len(marker % 0) + 2):
            n += 1
            data = payload + marker % n + b"after"
            env.cap = bytearray()
            env._scan = bytearray()
            env._on_output(data[:cut])
            env._on_output(data[cut:])
            env._on_output(b"")
            self.assertEqual(env._sync_seen, n, "cut at %d" % cut)
            self.assertEqual(bytes(env.cap) + bytes(env._scan), payload + b"after", "cut at %d" % cut)

    def test_query_split(self):
        env = PtyEnv(Persona(name="kitty", version="1", kitty_graphics=True), 20, 5)
        env._stop = True
        env.thread.join(2)
        q = b"\x1b]11;?\x1b\\" + b"\x1b[c" + b"\x1b_Gi=31,a=q,s=1;AAAA\x1b\\"
        for cut in range(1, len(q)):
            env.queries = []
            env._scan = bytearray()
            env._on_output(q[:cut])
            env._on_output(q[cut:])
            self.assertEqual(env.queries, ["bg", "da1", "kitty"], "cut at %d" % cut)


if __name__ == "__main__":
    unittest.main()
