"""Hand-written cases for the reference models (trusted base), independent of the library."""
import unittest
from fractions import Fraction as F

from vf.models import fmtspec, padding, sizing
from vf.models.iterator import CURRENT, END, START, IterModel


class FmtSpec(unittest.TestCase):
    def ok(self, spec, render_style="block", **want):
        v, info = fmtspec.parse(spec, render_style)
        self.assertEqual(v, "ok", (spec, info))
        for k, val in want.items():
            self.assertEqual(info[k], val, (spec, k))

    def bad(self, spec, style, kind):
        v, info = fmtspec.parse(spec, style)
        self.assertEqual(v, kind, (spec, info))

    def test_accept(self):
        self.ok("", pad_width=0, pad_height=-2, alpha=fmtspec.DEFAULT_THRESHOLD, h_align=None)
        self.ok("<10.^5#.5", h_align="<", pad_width=10, v_align="^", pad_height=5, alpha=0.5)
        self.ok("|.-", h_align="|", v_align="-", pad_height=-2)
        self.ok("#", alpha=None)
        self.ok("##", alpha="#")
        self.ok("#a0B1c2", alpha="#a0B1c2")
        self.ok(".0", pad_height=0)
        self.ok("+Lz-5m1c9", "kitty", style=dict(method="lines", z_index=-5, mix=True, compress=9))
        self.ok("+Ac0", "iterm2", style=dict(method="anim", compress=0))
        self.ok("5+W", "kitty", pad_width=5, style=dict(method="whole"))
        self.ok("+z2147483647", "kitty", style=dict(z_index=2**31 - 1))

    def test_reject(self):
        self.bad(".", "block", "general")
        self.bad("1.#", "block", "general")
        self.bad(".##", "block", "general")
        self.bad("+", "kitty", "general")
        self.bad("#12345", "block", "general")
        self.bad("#1234567", "block", "general")
        self.bad("x", "block", "general")
        self.bad("+L", "block", "style")
        self.bad("+A", "kitty", "style")
        self.bad("+m1L", "kitty", "style")
        self.bad("+z", "kitty", "style")
        self.bad("+z--1", "kitty", "style")
        self.bad("+m2", "iterm2", "style")
        self.bad("+z-2147483648", "kitty", "style-value")
        self.bad("+z2147483648", "kitty", "style-value")
        self.bad(".+x", "kitty", "both")


class Padding(unittest.TestCase):
    def test_box(self):
        self.assertEqual(padding.aligned_box((3, 2), (5, 1), (80, 24)), (5, 2))
        self.assertEqual(padding.aligned_box((3, 2), (0, -2), (80, 24)), (80, 22))
        self.assertEqual(padding.aligned_box((3, 2), (-100, 0), (80, 24)), (3, 24))
        self.assertTrue(padding.side_ok(0, 0, 5) and not padding.side_ok(0, 1, 4))
        self.assertTrue(padding.side_ok(1, 2, 3) and padding.side_ok(1, 3, 2) and not padding.side_ok(1, 1, 4))
        self.assertTrue(padding.side_ok(2, 5, 0) and not padding.side_ok(2, 4, 1))


class Sizing(unittest.TestCase):
    def test_fit_text(self):
        geo = sizing.geometry("text", None, 0.5)  # 1x2 px cells, pixel ratio 1
        self.assertEqual(geo, (1, 2, F(1)))
        # 100x100 source into 80x22 cells (80x44 px): constrained by height: 44x44 px -> 44x22 cells
        self.assertEqual(sizing.judge("FIT", None, (44, 22), (100, 100), (80, 22), geo)[0], [])
        self.assertTrue(sizing.judge("FIT", None, (45, 23), (100, 100), (80, 22), geo)[0])
        self.assertTrue(sizing.judge("FIT", None, (40, 20), (100, 100), (80, 22), geo)[0])

    def test_width_height(self):
        geo = sizing.geometry("graphics", (10, 20), 0.5)
        # width 4 cells = 40 px of a 200x100 source -> 20 px high -> 1 line
        self.assertEqual(sizing.judge("width", 4, (4, 1), (200, 100), (80, 24), geo)[0], [])
        self.assertTrue(sizing.judge("width", 4, (5, 1), (200, 100), (80, 24), geo)[0])
        self.assertTrue(sizing.judge("width", 4, (4, 3), (200, 100), (80, 24), geo)[0])

    def test_auto(self):
        geo = sizing.geometry("text", None, 0.5)
        others = dict(FIT=(80, 8), ORIGINAL=(10, 1))
        self.assertEqual(sizing.judge("AUTO", None, (10, 1), (10, 1), (80, 22), geo, others)[0], [])
        self.assertTrue(sizing.judge("AUTO", None, (80, 8), (10, 1), (80, 22), geo, others)[0])


class Iter(unittest.TestCase):
    def test_loops_and_boundary(self):
        m = IterModel(2, 2)
        self.assertEqual([m.do_next() for _ in range(3)], [("frame", 0), ("frame", 1), ("frame", 0)])
        self.assertEqual(m.loop, 1)
        m.do_next()
        self.assertEqual(m.do_seek(0, CURRENT), ("err", "ValueError"))  # next == frame_count
        self.assertEqual(m.do_seek(-1, CURRENT), ("ok",))
        self.assertEqual(m.do_next(), ("frame", 1))
        self.assertEqual(m.do_next(), ("stop",))
        self.assertEqual((m.loop, m.closed), (0, True))
        self.assertEqual(m.do_seek(0, START), ("err", "FinalizedIteratorError"))

    def test_indefinite(self):
        m = IterModel(None, 5, indef_len=3)
        self.assertEqual(m.loop, 1)
        m.do_seek(2, START)
        m.do_seek(0, CURRENT)  # only the last one counts
        self.assertEqual(m.do_next(), ("frame", 0))
        self.assertEqual(m.handed, [(0, CURRENT)])
        self.assertEqual(m.do_seek(1, END), ("err", "ValueError"))
        m.do_seek(0, END)
        self.assertEqual(m.do_next(), ("frame", 2))
        self.assertEqual(m.do_next(), ("stop",))


if __name__ == "__main__":
    unittest.main()
