#!/bin/sh
# Offline set-up: third-party verification deps next to the repository's interpreter.
cd "$(dirname "$0")" || exit 1
mkdir -p .deps evidence replays
if ! PYTHONPATH=.deps /venv/bin/python -c 'import icontract' 2>/dev/null; then
    /venv/bin/pip install --quiet --no-index --find-links /opt/veriftools/wheels --target .deps icontract || exit 1
fi
/venv/bin/python -B -c 'import sys; sys.path.insert(0, "."); import vf.vterm, vf.env, vf.main' || exit 1
/venv/bin/python -B -m unittest -q tests.test_vterm tests.test_env_scan tests.test_models 2>&1 | tail -3
exit 0
